//! A minimal, lossless, non-self-describing binary serde format — the "simulated disk format"
//! of the checkpoint configuration (C20). Floats are stored as their bit patterns, so NaN
//! payloads, infinities and the sign of zero survive; structs and tuples are stored as their
//! fields in order (deserialised through `visit_seq`), enum variants as a u32 index. The JSON
//! encoder used next to it exercises the `visit_map` / named-variant paths instead.

use serde::de::{self, DeserializeSeed, EnumAccess, IntoDeserializer, SeqAccess, VariantAccess, Visitor};
use serde::ser::{self, Serialize};
use std::fmt;

#[derive(Debug)]
pub struct Error(pub String);
impl fmt::Display for Error {
    fn fmt(&self, f: &mut fmt::Formatter<'_>) -> fmt::Result {
        write!(f, "{}", self.0)
    }
}
impl std::error::Error for Error {}
impl ser::Error for Error {
    fn custom<T: fmt::Display>(m: T) -> Self {
        Error(m.to_string())
    }
}
impl de::Error for Error {
    fn custom<T: fmt::Display>(m: T) -> Self {
        Error(m.to_string())
    }
}

pub fn to_bytes<T: Serialize>(v: &T) -> Result<Vec<u8>, Error> {
    let mut s = Ser { out: Vec::new() };
    v.serialize(&mut s)?;
    Ok(s.out)
}

pub fn from_bytes<'a, T: de::Deserialize<'a>>(b: &'a [u8]) -> Result<T, Error> {
    let mut d = De { inp: b };
    let v = T::deserialize(&mut d)?;
    if !d.inp.is_empty() {
        return Err(Error(format!("{} trailing bytes", d.inp.len())));
    }
    Ok(v)
}

pub struct Ser {
    out: Vec<u8>,
}

macro_rules! ser_num {
    ($f:ident, $t:ty) => {
        fn $f(self, v: $t) -> Result<(), Error> {
            self.out.extend_from_slice(&v.to_le_bytes());
            Ok(())
        }
    };
}

impl<'a> ser::Serializer for &'a mut Ser {
    type Ok = ();
    type Error = Error;
    type SerializeSeq = Self;
    type SerializeTuple = Self;
    type SerializeTupleStruct = Self;
    type SerializeTupleVariant = Self;
    type SerializeMap = Self;
    type SerializeStruct = Self;
    type SerializeStructVariant = Self;

    fn serialize_bool(self, v: bool) -> Result<(), Error> {
        self.out.push(v as u8);
        Ok(())
    }
    ser_num!(serialize_i8, i8);
    ser_num!(serialize_i16, i16);
    ser_num!(serialize_i32, i32);
    ser_num!(serialize_i64, i64);
    ser_num!(serialize_u8, u8);
    ser_num!(serialize_u16, u16);
    ser_num!(serialize_u32, u32);
    ser_num!(serialize_u64, u64);
    fn serialize_f32(self, v: f32) -> Result<(), Error> {
        self.out.extend_from_slice(&v.to_bits().to_le_bytes());
        Ok(())
    }
    fn serialize_f64(self, v: f64) -> Result<(), Error> {
        self.out.extend_from_slice(&v.to_bits().to_le_bytes());
        Ok(())
    }
    fn serialize_char(self, v: char) -> Result<(), Error> {
        self.serialize_u32(v as u32)
    }
    fn serialize_str(self, v: &str) -> Result<(), Error> {
        self.serialize_u64(v.len() as u64)?;
        self.out.extend_from_slice(v.as_bytes());
        Ok(())
    }
    fn serialize_bytes(self, v: &[u8]) -> Result<(), Error> {
        self.serialize_u64(v.len() as u64)?;
        self.out.extend_from_slice(v);
        Ok(())
    }
    fn serialize_none(self) -> Result<(), Error> {
        self.serialize_u8(0)
    }
    fn serialize_some<T: ?Sized + Serialize>(self, v: &T) -> Result<(), Error> {
        self.serialize_u8(1)?;
        v.serialize(self)
    }
    fn serialize_unit(self) -> Result<(), Error> {
        Ok(())
    }
    fn serialize_unit_struct(self, _: &'static str) -> Result<(), Error> {
        Ok(())
    }
    fn serialize_unit_variant(self, _: &'static str, idx: u32, _: &'static str) -> Result<(), Error> {
        self.serialize_u32(idx)
    }
    fn serialize_newtype_struct<T: ?Sized + Serialize>(self, _: &'static str, v: &T) -> Result<(), Error> {
        v.serialize(self)
    }
    fn serialize_newtype_variant<T: ?Sized + Serialize>(self, _: &'static str, idx: u32, _: &'static str, v: &T) -> Result<(), Error> {
        self.serialize_u32(idx)?;
        v.serialize(self)
    }
    fn serialize_seq(self, len: Option<usize>) -> Result<Self, Error> {
        let n = len.ok_or_else(|| Error("sequence of unknown length".into()))?;
        self.serialize_u64(n as u64)?;
        Ok(self)
    }
    fn serialize_tuple(self, _: usize) -> Result<Self, Error> {
        Ok(self)
    }
    fn serialize_tuple_struct(self, _: &'static str, _: usize) -> Result<Self, Error> {
        Ok(self)
    }
    fn serialize_tuple_variant(self, _: &'static str, idx: u32, _: &'static str, _: usize) -> Result<Self, Error> {
        self.serialize_u32(idx)?;
        Ok(self)
    }
    fn serialize_map(self, len: Option<usize>) -> Result<Self, Error> {
        let n = len.ok_or_else(|| Error("map of unknown length".into()))?;
        self.serialize_u64(n as u64)?;
        Ok(self)
    }
    fn serialize_struct(self, _: &'static str, _: usize) -> Result<Self, Error> {
        Ok(self)
    }
    fn serialize_struct_variant(self, _: &'static str, idx: u32, _: &'static str, _: usize) -> Result<Self, Error> {
        self.serialize_u32(idx)?;
        Ok(self)
    }
}

macro_rules! ser_compound {
    ($tr:ident, $m:ident) => {
        impl<'a> ser::$tr for &'a mut Ser {
            type Ok = ();
            type Error = Error;
            fn $m<T: ?Sized + Serialize>(&mut self, v: &T) -> Result<(), Error> {
                v.serialize(&mut **self)
            }
            fn end(self) -> Result<(), Error> {
                Ok(())
            }
        }
    };
}
ser_compound!(SerializeSeq, serialize_element);
ser_compound!(SerializeTuple, serialize_element);
ser_compound!(SerializeTupleStruct, serialize_field);
ser_compound!(SerializeTupleVariant, serialize_field);

impl<'a> ser::SerializeMap for &'a mut Ser {
    type Ok = ();
    type Error = Error;
    fn serialize_key<T: ?Sized + Serialize>(&mut self, k: &T) -> Result<(), Error> {
        k.serialize(&mut **self)
    }
    fn serialize_value<T: ?Sized + Serialize>(&mut self, v: &T) -> Result<(), Error> {
        v.serialize(&mut **self)
    }
    fn end(self) -> Result<(), Error> {
        Ok(())
    }
}
impl<'a> ser::SerializeStruct for &'a mut Ser {
    type Ok = ();
    type Error = Error;
    fn serialize_field<T: ?Sized + Serialize>(&mut self, _: &'static str, v: &T) -> Result<(), Error> {
        v.serialize(&mut **self)
    }
    fn end(self) -> Result<(), Error> {
        Ok(())
    }
}
impl<'a> ser::SerializeStructVariant for &'a mut Ser {
    type Ok = ();
    type Error = Error;
    fn serialize_field<T: ?Sized + Serialize>(&mut self, _: &'static str, v: &T) -> Result<(), Error> {
        v.serialize(&mut **self)
    }
    fn end(self) -> Result<(), Error> {
        Ok(())
    }
}

pub struct De<'de> {
    inp: &'de [u8],
}

impl<'de> De<'de> {
    fn take(&mut self, n: usize) -> Result<&'de [u8], Error> {
        if self.inp.len() < n {
            return Err(Error(format!("unexpected end of checkpoint: need {n}, have {}", self.inp.len())));
        }
        let (a, b) = self.inp.split_at(n);
        self.inp = b;
        Ok(a)
    }
}

macro_rules! de_num {
    ($f:ident, $v:ident, $t:ty, $n:expr) => {
        fn $f<V: Visitor<'de>>(self, vis: V) -> Result<V::Value, Error> {
            let b = self.take($n)?;
            let mut a = [0u8; $n];
            a.copy_from_slice(b);
            vis.$v(<$t>::from_le_bytes(a))
        }
    };
}

impl<'de, 'a> de::Deserializer<'de> for &'a mut De<'de> {
    type Error = Error;
    fn deserialize_any<V: Visitor<'de>>(self, _: V) -> Result<V::Value, Error> {
        Err(Error("wire format is not self-describing".into()))
    }
    fn deserialize_bool<V: Visitor<'de>>(self, vis: V) -> Result<V::Value, Error> {
        let b = self.take(1)?[0];
        vis.visit_bool(b != 0)
    }
    de_num!(deserialize_i8, visit_i8, i8, 1);
    de_num!(deserialize_i16, visit_i16, i16, 2);
    de_num!(deserialize_i32, visit_i32, i32, 4);
    de_num!(deserialize_i64, visit_i64, i64, 8);
    de_num!(deserialize_u8, visit_u8, u8, 1);
    de_num!(deserialize_u16, visit_u16, u16, 2);
    de_num!(deserialize_u32, visit_u32, u32, 4);
    de_num!(deserialize_u64, visit_u64, u64, 8);
    fn deserialize_f32<V: Visitor<'de>>(self, vis: V) -> Result<V::Value, Error> {
        let b = self.take(4)?;
        let mut a = [0u8; 4];
        a.copy_from_slice(b);
        vis.visit_f32(f32::from_bits(u32::from_le_bytes(a)))
    }
    fn deserialize_f64<V: Visitor<'de>>(self, vis: V) -> Result<V::Value, Error> {
        let b = self.take(8)?;
        let mut a = [0u8; 8];
        a.copy_from_slice(b);
        vis.visit_f64(f64::from_bits(u64::from_le_bytes(a)))
    }
    fn deserialize_char<V: Visitor<'de>>(self, vis: V) -> Result<V::Value, Error> {
        let b = self.take(4)?;
        let mut a = [0u8; 4];
        a.copy_from_slice(b);
        vis.visit_char(char::from_u32(u32::from_le_bytes(a)).ok_or_else(|| Error("bad char".into()))?)
    }
    fn deserialize_str<V: Visitor<'de>>(self, vis: V) -> Result<V::Value, Error> {
        let b = self.take(8)?;
        let mut a = [0u8; 8];
        a.copy_from_slice(b);
        let n = u64::from_le_bytes(a) as usize;
        let s = std::str::from_utf8(self.take(n)?).map_err(|e| Error(e.to_string()))?;
        vis.visit_borrowed_str(s)
    }
    fn deserialize_string<V: Visitor<'de>>(self, vis: V) -> Result<V::Value, Error> {
        self.deserialize_str(vis)
    }
    fn deserialize_bytes<V: Visitor<'de>>(self, vis: V) -> Result<V::Value, Error> {
        let b = self.take(8)?;
        let mut a = [0u8; 8];
        a.copy_from_slice(b);
        let n = u64::from_le_bytes(a) as usize;
        vis.visit_borrowed_bytes(self.take(n)?)
    }
    fn deserialize_byte_buf<V: Visitor<'de>>(self, vis: V) -> Result<V::Value, Error> {
        self.deserialize_bytes(vis)
    }
    fn deserialize_option<V: Visitor<'de>>(self, vis: V) -> Result<V::Value, Error> {
        match self.take(1)?[0] {
            0 => vis.visit_none(),
            _ => vis.visit_some(self),
        }
    }
    fn deserialize_unit<V: Visitor<'de>>(self, vis: V) -> Result<V::Value, Error> {
        vis.visit_unit()
    }
    fn deserialize_unit_struct<V: Visitor<'de>>(self, _: &'static str, vis: V) -> Result<V::Value, Error> {
        vis.visit_unit()
    }
    fn deserialize_newtype_struct<V: Visitor<'de>>(self, _: &'static str, vis: V) -> Result<V::Value, Error> {
        vis.visit_newtype_struct(self)
    }
    fn deserialize_seq<V: Visitor<'de>>(self, vis: V) -> Result<V::Value, Error> {
        let b = self.take(8)?;
        let mut a = [0u8; 8];
        a.copy_from_slice(b);
        let n = u64::from_le_bytes(a) as usize;
        vis.visit_seq(Counted { de: self, left: n })
    }
    fn deserialize_tuple<V: Visitor<'de>>(self, len: usize, vis: V) -> Result<V::Value, Error> {
        vis.visit_seq(Counted { de: self, left: len })
    }
    fn deserialize_tuple_struct<V: Visitor<'de>>(self, _: &'static str, len: usize, vis: V) -> Result<V::Value, Error> {
        vis.visit_seq(Counted { de: self, left: len })
    }
    fn deserialize_map<V: Visitor<'de>>(self, _: V) -> Result<V::Value, Error> {
        Err(Error("maps are not used by any stats-ci state".into()))
    }
    fn deserialize_struct<V: Visitor<'de>>(self, _: &'static str, fields: &'static [&'static str], vis: V) -> Result<V::Value, Error> {
        vis.visit_seq(Counted { de: self, left: fields.len() })
    }
    fn deserialize_enum<V: Visitor<'de>>(self, _: &'static str, _: &'static [&'static str], vis: V) -> Result<V::Value, Error> {
        vis.visit_enum(Enum { de: self })
    }
    fn deserialize_identifier<V: Visitor<'de>>(self, _: V) -> Result<V::Value, Error> {
        Err(Error("identifiers are not stored in the wire format".into()))
    }
    fn deserialize_ignored_any<V: Visitor<'de>>(self, _: V) -> Result<V::Value, Error> {
        Err(Error("wire format is not self-describing".into()))
    }
}

struct Counted<'a, 'de: 'a> {
    de: &'a mut De<'de>,
    left: usize,
}
impl<'de, 'a> SeqAccess<'de> for Counted<'a, 'de> {
    type Error = Error;
    fn next_element_seed<T: DeserializeSeed<'de>>(&mut self, seed: T) -> Result<Option<T::Value>, Error> {
        if self.left == 0 {
            return Ok(None);
        }
        self.left -= 1;
        seed.deserialize(&mut *self.de).map(Some)
    }
    fn size_hint(&self) -> Option<usize> {
        Some(self.left)
    }
}

struct Enum<'a, 'de: 'a> {
    de: &'a mut De<'de>,
}
impl<'de, 'a> EnumAccess<'de> for Enum<'a, 'de> {
    type Error = Error;
    type Variant = Self;
    fn variant_seed<V: DeserializeSeed<'de>>(self, seed: V) -> Result<(V::Value, Self), Error> {
        let b = self.de.take(4)?;
        let mut a = [0u8; 4];
        a.copy_from_slice(b);
        let idx = u32::from_le_bytes(a);
        let v = seed.deserialize(idx.into_deserializer())?;
        Ok((v, self))
    }
}
impl<'de, 'a> VariantAccess<'de> for Enum<'a, 'de> {
    type Error = Error;
    fn unit_variant(self) -> Result<(), Error> {
        Ok(())
    }
    fn newtype_variant_seed<T: DeserializeSeed<'de>>(self, seed: T) -> Result<T::Value, Error> {
        seed.deserialize(self.de)
    }
    fn tuple_variant<V: Visitor<'de>>(self, len: usize, vis: V) -> Result<V::Value, Error> {
        vis.visit_seq(Counted { de: self.de, left: len })
    }
    fn struct_variant<V: Visitor<'de>>(self, fields: &'static [&'static str], vis: V) -> Result<V::Value, Error> {
        vis.visit_seq(Counted { de: self.de, left: fields.len() })
    }
}

#[cfg(test)]
mod tests {
    use super::*;
    #[derive(serde::Serialize, serde::Deserialize, Debug, PartialEq)]
    enum E {
        A(f64),
        B(f32, f32),
        C { x: usize, y: Option<u8> },
    }
    #[derive(serde::Serialize, serde::Deserialize, Debug, PartialEq)]
    struct S {
        a: f64,
        b: f32,
        c: usize,
        e: Vec<E>,
    }
    #[test]
    fn roundtrip() {
        let s = S { a: -0.0, b: f32::INFINITY, c: 7, e: vec![E::A(1.5), E::B(1.0, 2.0), E::C { x: 9, y: Some(3) }] };
        let b = to_bytes(&s).unwrap();
        let t: S = from_bytes(&b).unwrap();
        assert_eq!(format!("{:?}", s), format!("{:?}", t));
        let n = to_bytes(&f64::from_bits(0x7ff8_0000_dead_beef)).unwrap();
        let m: f64 = from_bytes(&n).unwrap();
        assert_eq!(m.to_bits(), 0x7ff8_0000_dead_beef);
    }
}
