//! The only source of randomness in Engine A: SplitMix64-seeded xoshiro256**.
//! Implemented here so that no dependency upgrade can change the stream.
//! Nothing in logging / evidence paths draws from it.

#[derive(Clone, Debug)]
pub struct Rng {
    s: [u64; 4],
}

#[inline]
pub fn splitmix64(x: &mut u64) -> u64 {
    *x = x.wrapping_add(0x9E37_79B9_7F4A_7C15);
    let mut z = *x;
    z = (z ^ (z >> 30)).wrapping_mul(0xBF58_476D_1CE4_E5B9);
    z = (z ^ (z >> 27)).wrapping_mul(0x94D0_49BB_1331_11EB);
    z ^ (z >> 31)
}

/// Mixes (VERIF_SEED, property/scenario tag, run index) into one 64-bit seed.
pub fn mix(seed: u64, tag: &str, run: u64) -> u64 {
    let mut h = seed ^ 0x5851_F42D_4C95_7F2D;
    let mut x = splitmix64(&mut h);
    for b in tag.bytes() {
        h ^= (b as u64).wrapping_mul(0x100_0000_01B3);
        x ^= splitmix64(&mut h);
    }
    h ^= run.wrapping_mul(0xD6E8_FEB8_6659_FD93);
    x ^= splitmix64(&mut h);
    x ^ splitmix64(&mut h)
}

impl Rng {
    pub fn new(seed: u64) -> Self {
        let mut x = seed;
        let s = [
            splitmix64(&mut x),
            splitmix64(&mut x),
            splitmix64(&mut x),
            splitmix64(&mut x),
        ];
        Rng { s }
    }

    #[inline]
    pub fn next_u64(&mut self) -> u64 {
        let result = self.s[1].wrapping_mul(5).rotate_left(7).wrapping_mul(9);
        let t = self.s[1] << 17;
        self.s[2] ^= self.s[0];
        self.s[3] ^= self.s[1];
        self.s[1] ^= self.s[2];
        self.s[0] ^= self.s[3];
        self.s[2] ^= t;
        self.s[3] = self.s[3].rotate_left(45);
        result
    }

    /// uniform in [0, n) (n > 0); multiply-shift, bias < 2^-32 for the n used here
    #[inline]
    pub fn below(&mut self, n: u64) -> u64 {
        debug_assert!(n > 0);
        ((self.next_u64() as u128 * n as u128) >> 64) as u64
    }

    #[inline]
    pub fn range(&mut self, lo: i64, hi_incl: i64) -> i64 {
        lo + self.below((hi_incl - lo + 1) as u64) as i64
    }

    #[inline]
    pub fn usize_in(&mut self, lo: usize, hi_incl: usize) -> usize {
        lo + self.below((hi_incl - lo + 1) as u64) as usize
    }

    /// uniform in [0,1) with 53 bits
    #[inline]
    pub fn unit(&mut self) -> f64 {
        (self.next_u64() >> 11) as f64 * (1.0 / (1u64 << 53) as f64)
    }

    #[inline]
    pub fn chance(&mut self, p: f64) -> bool {
        self.unit() < p
    }

    pub fn pick<'a, T>(&mut self, xs: &'a [T]) -> &'a T {
        &xs[self.below(xs.len() as u64) as usize]
    }

    /// index drawn according to integer weights (sum > 0)
    pub fn weighted(&mut self, w: &[u32]) -> usize {
        let total: u64 = w.iter().map(|&x| x as u64).sum();
        let mut r = self.below(total.max(1));
        for (i, &x) in w.iter().enumerate() {
            if r < x as u64 {
                return i;
            }
            r -= x as u64;
        }
        w.len() - 1
    }

    /// approximately standard normal (sum of 4 uniforms, good enough for data families)
    pub fn gaussish(&mut self) -> f64 {
        let s: f64 = (0..4).map(|_| self.unit()).sum::<f64>() - 2.0;
        s * 1.732
    }
}

/// FNV-1a, used for trace-shape digests (never for decisions)
pub fn fnv1a(bytes: &[u8]) -> u64 {
    let mut h: u64 = 0xcbf2_9ce4_8422_2325;
    for &b in bytes {
        h ^= b as u64;
        h = h.wrapping_mul(0x100_0000_01b3);
    }
    h
}

#[derive(Clone, Copy, Debug)]
pub struct Digest(pub u64);
impl Digest {
    pub fn new() -> Self {
        Digest(0xcbf2_9ce4_8422_2325)
    }
    #[inline]
    pub fn u64(&mut self, x: u64) {
        for i in 0..8 {
            self.0 ^= (x >> (8 * i)) & 0xff;
            self.0 = self.0.wrapping_mul(0x100_0000_01b3);
        }
    }
    pub fn bytes(&mut self, b: &[u8]) {
        for &x in b {
            self.0 ^= x as u64;
            self.0 = self.0.wrapping_mul(0x100_0000_01b3);
        }
    }
}
