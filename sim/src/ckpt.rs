//! Checkpoint configuration (C20): serialize = checkpoint to the simulated durable store,
//! CrashRestore = the in-memory state is lost, the last checkpoint is deserialized and the
//! deliveries made since are re-applied. Every slot has a never-restarted twin that receives the
//! identical operations; after a restore, at every query and at the end of the run the restarted
//! slot and its twin must be bit-identical (Debug fingerprint and every query result).
//!
//! Encoders: `wire` (lossless binary, struct fields through visit_seq, variant indices) and
//! serde_json with float_roundtrip (named fields through visit_map, named variants) — the latter
//! only for f64 and integer states, because JSON text is not a lossless carrier for f32 in
//! general (a limitation of the carrier, not of stats-ci).

use crate::free::{Reach, Trace};
use crate::machines::*;
use crate::oracle::{Stats, Violation};
use crate::rng::{mix, Digest, Rng};
use crate::tape::*;
use crate::wire;
use crate::world::*;
use serde::de::DeserializeOwned;
use serde::Serialize;
use serde_json::{json, Value};
use stats_ci::comparison::{Paired, Unpaired};
use stats_ci::mean::{Arithmetic, Geometric, Harmonic, StatisticsOps};
use stats_ci::proportion;
use stats_ci::{Confidence, Interval};
use std::collections::BTreeMap;

pub trait Ckpt: Machine {
    const JSON_OK: bool;
    fn to_wire(s: &Self::S) -> Result<Vec<u8>, String>;
    fn from_wire(b: &[u8]) -> Result<Self::S, String>;
    fn to_json(s: &Self::S) -> Result<Vec<u8>, String>;
    fn from_json(b: &[u8]) -> Result<Self::S, String>;
    /// PartialEq of the state type
    fn same(a: &Self::S, b: &Self::S) -> bool;
    /// round trip of a confidence-interval result of this machine's element type through both encoders
    fn interval_roundtrip(iv: &Iv) -> Result<(), String>;
}

fn iv_rt<T>(i: Interval<T>) -> Result<(), String>
where
    T: PartialOrd + Serialize + DeserializeOwned + std::fmt::Debug,
{
    let b = wire::to_bytes(&i).map_err(|e| format!("serialize: {e}"))?;
    let r: Interval<T> = wire::from_bytes(&b).map_err(|e| format!("deserialize: {e}"))?;
    if format!("{:?}", r) != format!("{:?}", i) {
        return Err(format!("wire: {:?} came back as {:?}", i, r));
    }
    if r != i && format!("{:?}", i).find("NaN").is_none() {
        return Err(format!("wire: {:?} does not compare equal to its round trip", i));
    }
    let js = serde_json::to_vec(&i).map_err(|e| format!("json serialize: {e}"))?;
    // JSON is only a lossless carrier for finite f64 / integers; for those the result must be identical
    if std::any::type_name::<T>() != "f32" && !String::from_utf8_lossy(&js).contains("null") {
        let r: Interval<T> = serde_json::from_slice(&js).map_err(|e| format!("json deserialize of {}: {e}", String::from_utf8_lossy(&js)))?;
        if format!("{:?}", r) != format!("{:?}", i) {
            return Err(format!("json: {:?} came back as {:?}", i, r));
        }
    }
    Ok(())
}

fn interval_of<F: Fl>(iv: &Iv) -> Interval<F> {
    match iv.kind {
        0 => Interval::TwoSided(F::from_f64_lossy(iv.lo), F::from_f64_lossy(iv.hi)),
        1 => Interval::UpperOneSided(F::from_f64_lossy(iv.lo)),
        _ => Interval::LowerOneSided(F::from_f64_lossy(iv.hi)),
    }
}

macro_rules! ckpt_float {
    ($M:ident) => {
        impl<F: Fl + Serialize + DeserializeOwned> Ckpt for $M<F> {
            const JSON_OK: bool = F::U < 1e-10;
            fn to_wire(s: &Self::S) -> Result<Vec<u8>, String> {
                wire::to_bytes(s).map_err(|e| e.to_string())
            }
            fn from_wire(b: &[u8]) -> Result<Self::S, String> {
                wire::from_bytes(b).map_err(|e| e.to_string())
            }
            fn to_json(s: &Self::S) -> Result<Vec<u8>, String> {
                serde_json::to_vec(s).map_err(|e| e.to_string())
            }
            fn from_json(b: &[u8]) -> Result<Self::S, String> {
                serde_json::from_slice(b).map_err(|e| e.to_string())
            }
            fn same(a: &Self::S, b: &Self::S) -> bool {
                a == b
            }
            fn interval_roundtrip(iv: &Iv) -> Result<(), String> {
                iv_rt::<F>(interval_of::<F>(iv))
            }
        }
    };
}
ckpt_float!(MArith);
ckpt_float!(MGeo);
ckpt_float!(MHarm);
ckpt_float!(MPaired);
ckpt_float!(MUnpaired);

impl Ckpt for MProp {
    const JSON_OK: bool = true;
    fn to_wire(s: &Self::S) -> Result<Vec<u8>, String> {
        wire::to_bytes(s).map_err(|e| e.to_string())
    }
    fn from_wire(b: &[u8]) -> Result<Self::S, String> {
        wire::from_bytes(b).map_err(|e| e.to_string())
    }
    fn to_json(s: &Self::S) -> Result<Vec<u8>, String> {
        serde_json::to_vec(s).map_err(|e| e.to_string())
    }
    fn from_json(b: &[u8]) -> Result<Self::S, String> {
        serde_json::from_slice(b).map_err(|e| e.to_string())
    }
    fn same(a: &Self::S, b: &Self::S) -> bool {
        a == b
    }
    fn interval_roundtrip(iv: &Iv) -> Result<(), String> {
        iv_rt::<f64>(interval_of::<f64>(iv))?;
        // an index interval as the quantile module returns them
        let u = match iv.kind {
            0 => Interval::TwoSided((iv.lo.abs() * 1000.0) as usize, (iv.hi.abs() * 1000.0) as usize + 1000),
            1 => Interval::UpperOneSided((iv.lo.abs() * 1000.0) as usize),
            _ => Interval::LowerOneSided((iv.hi.abs() * 1000.0) as usize),
        };
        iv_rt::<usize>(u)
    }
}

fn confidence_roundtrip(c: u8) -> Result<(), String> {
    confidence_value_roundtrip(conf(c))
}

fn confidence_value_roundtrip(cf: Confidence) -> Result<(), String> {
    let b = wire::to_bytes(&cf).map_err(|e| format!("serialize: {e}"))?;
    let r: Confidence = wire::from_bytes(&b).map_err(|e| format!("deserialize: {e}"))?;
    if r != cf || format!("{:?}", r) != format!("{:?}", cf) {
        return Err(format!("wire: {:?} came back as {:?}", cf, r));
    }
    let js = serde_json::to_vec(&cf).map_err(|e| format!("json serialize: {e}"))?;
    let r: Confidence = serde_json::from_slice(&js).map_err(|e| format!("json deserialize: {e}"))?;
    if r != cf || format!("{:?}", r) != format!("{:?}", cf) {
        return Err(format!("json: {:?} came back as {:?} via {}", cf, r, String::from_utf8_lossy(&js)));
    }
    Ok(())
}

/// A fixed corpus of Confidence and Interval values (every variant, special floats) pushed
/// through both encoders; executed at the start of every 64th run so that it is part of a
/// replayable trace.
fn corpus_roundtrip(seed: u64) -> Result<u64, String> {
    let mut n = 0;
    for c in 0..N_CONF {
        confidence_roundtrip(c).map_err(|e| format!("Confidence {}: {e}", conf_name(c)))?;
        n += 1;
    }
    // arbitrary levels in (0, 1): values that need all 17 digits, values next to 0 and 1, an f32
    // level widened to f64, and seeded random ones - in all three kinds
    let mut r = Rng::new(mix(seed, "confidence-levels", 0));
    let mut levels = vec![1.0 / 3.0, 0.1 + 0.2, 0.95f32 as f64, 1.0 - 1e-13, 1e-13, 1.0 - f64::EPSILON / 2.0, 1e-300, 5e-324, 0.5, 2.0 / 3.0];
    for _ in 0..16 {
        let x = r.unit();
        if x > 0.0 {
            levels.push(x);
        }
    }
    for &l in &levels {
        for cf in [Confidence::new_two_sided(l), Confidence::new_upper(l), Confidence::new_lower(l)] {
            confidence_value_roundtrip(cf).map_err(|e| format!("Confidence level {:?}: {e}", l))?;
            n += 1;
        }
    }
    let f64s = [0.0f64, -0.0, 1.0, -1.5, f64::MIN_POSITIVE, 5e-324, f64::MAX, -f64::MAX, f64::INFINITY, f64::NEG_INFINITY, 0.1, 1e300];
    for &a in &f64s {
        for &b in &f64s {
            iv_rt::<f64>(Interval::TwoSided(a, b)).map_err(|e| format!("Interval<f64>::TwoSided: {e}"))?;
            iv_rt::<f32>(Interval::TwoSided(a as f32, b as f32)).map_err(|e| format!("Interval<f32>::TwoSided: {e}"))?;
            n += 2;
        }
        iv_rt::<f64>(Interval::UpperOneSided(a)).map_err(|e| format!("Interval<f64>::UpperOneSided: {e}"))?;
        iv_rt::<f64>(Interval::LowerOneSided(a)).map_err(|e| format!("Interval<f64>::LowerOneSided: {e}"))?;
        iv_rt::<f32>(Interval::UpperOneSided(a as f32)).map_err(|e| format!("Interval<f32>::UpperOneSided: {e}"))?;
        iv_rt::<f32>(Interval::LowerOneSided(a as f32)).map_err(|e| format!("Interval<f32>::LowerOneSided: {e}"))?;
        n += 4;
    }
    for &a in &[0usize, 1, 7, usize::MAX] {
        iv_rt::<usize>(Interval::UpperOneSided(a)).map_err(|e| format!("Interval<usize>::UpperOneSided: {e}"))?;
        iv_rt::<usize>(Interval::LowerOneSided(a)).map_err(|e| format!("Interval<usize>::LowerOneSided: {e}"))?;
        iv_rt::<usize>(Interval::TwoSided(a / 2, a)).map_err(|e| format!("Interval<usize>::TwoSided: {e}"))?;
        iv_rt::<i64>(Interval::TwoSided(-(a as i64 / 4), a as i64 / 2)).map_err(|e| format!("Interval<i64>::TwoSided: {e}"))?;
        n += 4;
    }
    // states at the far ends of their counters: a few records merged with copies of themselves up
    // to 40 times (count = len * 2^k, beyond 32 bits), counters built directly at 2^32, 2^53 + 1 and
    // usize::MAX, and states holding extreme magnitudes (quantile::Stats has no serde impl and is not
    // among the states C20 lists)
    for k in [0u32, 1, 16, 31, 32, 33, 40] {
        let rep = |what: &str, e: String| format!("{what} after {k} self-merges: {e}");
        let a64 = [1.5f64, 2.25, 4.0];
        let b64 = [0.75f64, 3.5, 1.0e3];
        let a32 = [1.5f32, 2.25, 4.0];
        let b32 = [0.75f32, 3.5, 1.0e3];
        let mut s = Arithmetic::<f64>::from_iter(&a64).map_err(|e| e.to_string())?;
        let mut g = Geometric::<f64>::from_iter(&a64).map_err(|e| e.to_string())?;
        let mut h = Harmonic::<f64>::from_iter(&a64).map_err(|e| e.to_string())?;
        let mut s32 = Arithmetic::<f32>::from_iter(&a32).map_err(|e| e.to_string())?;
        let mut p = Paired::<f64>::default();
        p.extend(&a64, &b64).map_err(|e| e.to_string())?;
        let mut u = Unpaired::<f64>::from_iter(&a64, &[0.75f64, 3.5]).map_err(|e| e.to_string())?;
        let mut u32s = Unpaired::<f32>::from_iter(&a32, &[0.75f32, 3.5]).map_err(|e| e.to_string())?;
        let mut pr = proportion::Stats::new(7, 3);
        for _ in 0..k {
            s = s + s;
            g = g + g;
            h = h + h;
            s32 = s32 + s32;
            p = p.clone() + p;
            u = u.clone() + u;
            u32s = u32s.clone() + u32s;
            pr = pr.clone() + pr;
        }
        state_rt(&s, true).map_err(|e| rep("Arithmetic<f64>", e))?;
        state_rt(&g, true).map_err(|e| rep("Geometric<f64>", e))?;
        state_rt(&h, true).map_err(|e| rep("Harmonic<f64>", e))?;
        state_rt(&s32, false).map_err(|e| rep("Arithmetic<f32>", e))?;
        state_rt(&p, true).map_err(|e| rep("Paired<f64>", e))?;
        state_rt(&u, true).map_err(|e| rep("Unpaired<f64>", e))?;
        state_rt(&u32s, false).map_err(|e| rep("Unpaired<f32>", e))?;
        state_rt(&pr, true).map_err(|e| rep("proportion::Stats", e))?;
        n += 8;
    }
    for &pop in &[1usize << 32, (1usize << 32) + 1, (1usize << 53) + 1, usize::MAX - 1, usize::MAX] {
        for &k in &[0usize, 1, pop / 3, pop - 1, pop] {
            state_rt(&proportion::Stats::new(pop, k), true).map_err(|e| format!("proportion::Stats::new({pop}, {k}): {e}"))?;
            n += 1;
        }
    }
    for data in [[f64::MIN_POSITIVE, 5e-324, 1e-300], [1e150, -1e150, 1e-150], [0.1, 0.1, 0.1], [0.0, -0.0, 0.0]] {
        let s = Arithmetic::<f64>::from_iter(&data).map_err(|e| e.to_string())?;
        state_rt(&s, true).map_err(|e| format!("Arithmetic<f64> over {data:?}: {e}"))?;
        n += 1;
    }
    Ok(n)
}

/// Crash and restart at EVERY point of an accumulation history. A seeded stream of records is
/// fed one by one to a never-restarted state and to a state that goes through the durable store
/// (serialize, drop, deserialize) before every single append; after every append the two must be
/// bit-identical. The streams are of the kind that puts a running total exactly on a boundary
/// (a power of two, an exact cancellation) with a rounding residue pending: decimal grids, and a
/// record aimed at the next power of two above the running total every few steps. A checkpoint
/// taken one append earlier or later than such an instant is innocent, so the instants are
/// enumerated rather than sampled. Executed at the start of every 64th run (offset 32), so it is
/// part of a replayable trace like the value corpus.
fn restart_at_every_point(seed: u64) -> Result<u64, String> {
    macro_rules! sweep {
        ($F:ty, $json:expr, $tag:expr) => {{
            let mut r = Rng::new(mix(seed, concat!("restart-at-every-point/", $tag), 0));
            let fam = r.below(5);
            let len = 300 + r.below(900) as usize;
            let scale = (2.0 as $F).powi(r.range(-12, 12) as i32);
            let mut naive: $F = 0.0;
            let mut ar_a = Arithmetic::<$F>::new();
            let mut ar_b = Arithmetic::<$F>::new();
            let mut ge_a = Geometric::<$F>::new();
            let mut ge_b = Geometric::<$F>::new();
            let mut ha_a = Harmonic::<$F>::new();
            let mut ha_b = Harmonic::<$F>::new();
            let mut pa_a = Paired::<$F>::default();
            let mut pa_b = Paired::<$F>::default();
            let mut ka_a = stats_ci::utils::KahanSum::<$F>::default();
            let mut ka_b = stats_ci::utils::KahanSum::<$F>::default();
            let mut n = 0u64;
            for step in 0..len {
                let mut x: $F = match fam {
                    0 => (1 + r.below(99)) as $F / 100.0,
                    1 => (1 + r.below(999)) as $F / 1000.0 * scale,
                    2 => 0.1 * (1 + r.below(20)) as $F,
                    3 => (1 + r.below(9)) as $F / 10.0 * scale,
                    _ => (r.unit() as $F + 1e-3) * scale,
                };
                if r.chance(0.2) && naive > 0.0 {
                    // aim the running total at the next power of two, give or take a residue
                    let target = (2.0 as $F).powf(naive.log2().ceil());
                    let d = target - naive;
                    if d > 0.0 && d.is_finite() {
                        x = d * (1.0 + (r.unit() as $F - 0.5) * <$F>::EPSILON * 4.0);
                    }
                }
                if !(x > 0.0) || !x.is_finite() {
                    x = scale;
                }
                // mixed signs for the registers that accept them: exact cancellations to zero
                let signed = if fam % 2 == 1 && r.chance(0.3) { -x } else { x };
                naive += x;
                macro_rules! through_store {
                    ($b:ident, $what:expr) => {{
                        let bytes = wire::to_bytes(&$b).map_err(|e| format!("{} serialize at step {step}: {e}", $what))?;
                        $b = wire::from_bytes(&bytes).map_err(|e| format!("{} deserialize at step {step}: {e}", $what))?;
                        if $json && step % 2 == 0 {
                            let js = serde_json::to_vec(&$b).map_err(|e| format!("{} json serialize at step {step}: {e}", $what))?;
                            $b = serde_json::from_slice(&js).map_err(|e| format!("{} json deserialize at step {step}: {e}", $what))?;
                        }
                        n += 1;
                    }};
                }
                through_store!(ar_b, "Arithmetic");
                through_store!(ge_b, "Geometric");
                through_store!(ha_b, "Harmonic");
                through_store!(pa_b, "Paired");
                through_store!(ka_b, "KahanSum");
                ar_a.append(signed).map_err(|e| e.to_string())?;
                ar_b.append(signed).map_err(|e| e.to_string())?;
                ge_a.append(x).map_err(|e| e.to_string())?;
                ge_b.append(x).map_err(|e| e.to_string())?;
                ha_a.append(x).map_err(|e| e.to_string())?;
                ha_b.append(x).map_err(|e| e.to_string())?;
                pa_a.append_pair(signed, x * 0.5).map_err(|e| e.to_string())?;
                pa_b.append_pair(signed, x * 0.5).map_err(|e| e.to_string())?;
                ka_a += signed;
                ka_b += signed;
                macro_rules! same {
                    ($a:ident, $b:ident, $what:expr) => {{
                        let (fa, fb) = (format!("{:?}", $a), format!("{:?}", $b));
                        if fa != fb {
                            return Err(format!(
                                "{}<{}> restarted before each of the first {} appends of a {} stream holds {fb}, the never-restarted state holds {fa}",
                                $what,
                                $tag,
                                step + 1,
                                ["two-decimal", "three-decimal scaled", "tenths", "one-decimal scaled", "uniform"][fam as usize]
                            ));
                        }
                    }};
                }
                same!(ar_a, ar_b, "Arithmetic");
                same!(ge_a, ge_b, "Geometric");
                same!(ha_a, ha_b, "Harmonic");
                same!(pa_a, pa_b, "Paired");
                same!(ka_a, ka_b, "KahanSum");
            }
            n
        }};
    }
    let mut n = 0;
    n += sweep!(f64, true, "f64");
    n += sweep!(f32, false, "f32");
    Ok(n)
}

/// one state through both encoders: identical Debug fingerprint and equal under PartialEq
fn state_rt<S>(s: &S, json_ok: bool) -> Result<(), String>
where
    S: Serialize + DeserializeOwned + std::fmt::Debug + PartialEq,
{
    let b = wire::to_bytes(s).map_err(|e| format!("serialize: {e}"))?;
    let r: S = wire::from_bytes(&b).map_err(|e| format!("deserialize: {e}"))?;
    if format!("{:?}", r) != format!("{:?}", s) {
        return Err(format!("wire: {:?} came back as {:?}", s, r));
    }
    if r != *s && !has_nonfinite(&format!("{:?}", s)) {
        return Err(format!("wire: {:?} does not compare equal to its round trip", s));
    }
    if json_ok {
        let js = serde_json::to_vec(s).map_err(|e| format!("json serialize: {e}"))?;
        let r: S = serde_json::from_slice(&js).map_err(|e| format!("json deserialize of {}: {e}", String::from_utf8_lossy(&js)))?;
        if format!("{:?}", r) != format!("{:?}", s) {
            return Err(format!("json: {:?} came back as {:?}", s, r));
        }
    }
    Ok(())
}

struct Durable {
    enc: u8,
    bytes: Vec<u8>,
    /// deliveries made to the slot since the checkpoint: (style, stream, tape indices)
    log: Vec<(u8, usize, [Vec<u32>; 2])>,
    /// refused calls since the checkpoint, by position in `log` before which they happened:
    /// (position, style, explicit records)
    refused: Vec<(usize, u8, [Vec<Bits>; 2])>,
}

/// kind of a `Fault` event in the checkpoint configuration: a call the library must refuse (a
/// non-positive record for the geometric / harmonic accumulators, streams of unequal length for
/// Paired). A refused call is part of an accumulation history like any other call: the state it
/// leaves behind is checkpointed, restored and must keep matching the never-restarted twin.
pub const FK_REFUSED: u8 = 9;

/// the records of a refused call, derived from the event's payload
fn refused_records<M: Machine>(payload: Bits) -> [Vec<Bits>; 2] {
    if M::LOCKSTEP {
        [vec![payload, payload, payload], vec![payload]]
    } else {
        [vec![payload], vec![]]
    }
}

fn take_indices<M: Machine>(w: &mut World<M>, stream: usize, len: usize, style: u8) -> [Vec<u32>; 2] {
    let stream = stream % M::STREAMS.max(1);
    let dual = M::LOCKSTEP || (M::FAMILY == Family::Unpaired && unpaired_style_is_dual(style));
    let mut take = [0usize; 2];
    if dual {
        for k in 0..2 {
            take[k] = len.min(w.remaining(k));
        }
        if M::LOCKSTEP {
            let m = take[0].min(take[1]);
            take = [m, m];
        }
    } else {
        take[stream] = len.min(w.remaining(stream));
    }
    let idx = [
        (w.cursor[0]..w.cursor[0] + take[0]).map(|i| i as u32).collect(),
        (w.cursor[1]..w.cursor[1] + take[1]).map(|i| i as u32).collect(),
    ];
    w.cursor[0] += take[0];
    w.cursor[1] += take[1];
    idx
}

fn has_nonfinite(fp: &str) -> bool {
    fp.contains("NaN") || fp.contains("inf")
}

pub fn exec<M: Ckpt>(tr: &Trace, stats: &mut Stats) -> (Vec<Violation>, Reach, Vec<(String, u64)>) {
    let tapes = [tr.tapes[0].materialize(), tr.tapes[1].materialize()];
    let mut w = World::<M>::new(tapes.clone());
    let mut tw = World::<M>::new(tapes);
    let mut durable: BTreeMap<u16, Durable> = BTreeMap::new();
    let mut reach = Reach::default();
    let mut dg = Digest::new();
    let mut fired: BTreeMap<String, u64> = BTreeMap::new();
    let name = M::name();
    macro_rules! fail {
        ($inv:expr, $slot:expr, $detail:expr) => {{
            reach.shape = dg.0;
            return (vec![Violation::new("C20", &format!("{}/{}", name, $inv), $slot, $detail)], reach, fired.into_iter().collect());
        }};
    }
    if tr.run_index % 64 == 0 {
        match corpus_roundtrip(tr.verif_seed ^ tr.run_index) {
            Ok(n) => stats.add("corpus_value_roundtrips", n),
            Err(e) => fail!("value-round-trip", 0, e),
        }
    }
    if tr.run_index % 64 == 32 {
        match restart_at_every_point(tr.verif_seed ^ tr.run_index) {
            Ok(n) => stats.add("restarts_at_every_point_of_a_history", n),
            Err(e) => fail!("restart-at-every-point", 0, e),
        }
    }
    for ev in &tr.events {
        dg.u64(ev.shape());
        reach.steps += 1;
        match ev {
            Event::Deliver { dst, stream, len, style, ctor } => {
                let idx = take_indices::<M>(&mut w, *stream as usize, *len as usize, *style);
                let stream = (*stream as usize) % M::STREAMS.max(1);
                let o1 = w.deliver_indices(*dst, stream, *style, *ctor, &idx);
                let o2 = tw.deliver_indices(*dst, stream, *style, *ctor, &idx);
                if !o1.is_ok() || !o2.is_ok() {
                    fail!("valid-delivery-rejected", *dst, format!("{:?}: {} / {}", ev, o1.class(), o2.class()));
                }
                if let Some(d) = durable.get_mut(dst) {
                    d.log.push((*style, stream, idx));
                }
            }
            Event::Fault { dst, style, kind, payload, .. } if *kind == FK_REFUSED => {
                if w.get(*dst).is_none() || tw.get(*dst).is_none() {
                    continue;
                }
                let recs = refused_records::<M>(*payload);
                let o1 = M::deliver(&mut w.slots[*dst as usize].as_mut().unwrap().st, *style, 0, [&recs[0], &recs[1]]);
                let o2 = M::deliver(&mut tw.slots[*dst as usize].as_mut().unwrap().st, *style, 0, [&recs[0], &recs[1]]);
                *fired.entry(format!("refused-call:{}", if o1.is_ok() { "accepted" } else { "refused" })).or_insert(0) += 1;
                if o1.class() != o2.class() {
                    fail!("restarted-state-answers-differently-from-twin", *dst, format!("a call that must be refused: {} on the restarted state, {} on the twin", o1.class(), o2.class()));
                }
                if let Some(d) = durable.get_mut(dst) {
                    let at = d.log.len();
                    d.refused.push((at, *style, recs));
                }
            }
            Event::Merge { a, b, dst, .. } => {
                w.step(ev);
                tw.step(ev);
                for s in [a, b, dst] {
                    durable.remove(s);
                }
            }
            Event::MergeEmpty { a, .. } => {
                w.step(ev);
                tw.step(ev);
                durable.remove(a);
            }
            Event::Fork { dst, .. } => {
                w.step(ev);
                tw.step(ev);
                durable.remove(dst);
            }
            Event::Checkpoint { a, enc } => {
                let Some(s) = w.get(*a) else { continue };
                let fp = M::fingerprint(&s.st);
                let use_json = *enc % 2 == 1 && M::JSON_OK && !has_nonfinite(&fp);
                if *enc % 2 == 1 && !use_json {
                    *fired.entry("json_skipped".into()).or_insert(0) += 1;
                }
                let bytes = if use_json { M::to_json(&s.st) } else { M::to_wire(&s.st) };
                let bytes = match bytes {
                    Ok(b) => b,
                    Err(e) => fail!("serialize-failed", *a, format!("{} of {fp}: {e}", if use_json { "json" } else { "wire" })),
                };
                *fired.entry(format!("checkpoint:{}", if use_json { "json" } else { "wire" })).or_insert(0) += 1;
                // immediate round trip
                let back = if use_json { M::from_json(&bytes) } else { M::from_wire(&bytes) };
                let back = match back {
                    Ok(b) => b,
                    Err(e) => fail!("deserialize-failed", *a, format!("{} of {fp}: {e} (bytes: {})", if use_json { "json" } else { "wire" }, String::from_utf8_lossy(&bytes))),
                };
                stats.inc("roundtrips_checked");
                let fpb = M::fingerprint(&back);
                if fpb != fp {
                    fail!("round-trip-changed-the-state", *a, format!("{fp} came back as {fpb}"));
                }
                if !has_nonfinite(&fp) && !M::same(&back, &s.st) {
                    fail!("restored-value-does-not-compare-equal", *a, format!("{fp}: restored value != original"));
                }
                let plan = ObsPlan { confs: &[18, 19, 20], unguarded: false };
                if M::observe(&back, plan) != M::observe(&s.st, plan) {
                    fail!("restored-value-reports-different-statistics", *a, format!("{fp}"));
                }
                durable.insert(*a, Durable { enc: use_json as u8, bytes, log: Vec::new(), refused: Vec::new() });
            }
            Event::CrashRestore { a } => {
                let Some(d) = durable.get(a) else { continue };
                if w.get(*a).is_none() {
                    continue;
                }
                *fired.entry("crash-restore".into()).or_insert(0) += 1;
                *fired.entry(format!("replayed-deliveries:{}", len_bucket(d.log.len() as u32))).or_insert(0) += 1;
                let restored = if d.enc == 1 { M::from_json(&d.bytes) } else { M::from_wire(&d.bytes) };
                let mut st = match restored {
                    Ok(s) => s,
                    Err(e) => fail!("deserialize-failed", *a, e),
                };
                for (k, (style, stream, idx)) in d.log.iter().enumerate() {
                    for (_, rstyle, rrecs) in d.refused.iter().filter(|x| x.0 == k) {
                        let _ = M::deliver(&mut st, *rstyle, 0, [&rrecs[0], &rrecs[1]]);
                    }
                    let recs: [Vec<Bits>; 2] = [
                        idx[0].iter().map(|&i| w.tapes[0][i as usize]).collect(),
                        idx[1].iter().map(|&i| w.tapes[1][i as usize]).collect(),
                    ];
                    let o = M::deliver(&mut st, *style, *stream, [&recs[0], &recs[1]]);
                    if !o.is_ok() {
                        fail!("valid-delivery-rejected-after-restore", *a, o.class());
                    }
                }
                for (_, rstyle, rrecs) in d.refused.iter().filter(|x| x.0 == d.log.len()) {
                    let _ = M::deliver(&mut st, *rstyle, 0, [&rrecs[0], &rrecs[1]]);
                }
                // the in-memory state is discarded and replaced by the recovered one
                w.slots[*a as usize].as_mut().unwrap().st = st;
                stats.inc("restores_checked");
                let (f1, f2) = (M::fingerprint(&w.get(*a).unwrap().st), M::fingerprint(&tw.get(*a).unwrap().st));
                if f1 != f2 {
                    fail!("restarted-state-diverges-from-never-restarted-twin", *a, format!("restarted {f1} twin {f2} ({} deliveries re-applied)", d.log.len()));
                }
            }
            Event::Query { a, confs } => {
                let (Some(s), Some(t)) = (w.get(*a), tw.get(*a)) else { continue };
                let plan = ObsPlan { confs, unguarded: false };
                let (o1, o2) = (M::observe(&s.st, plan), M::observe(&t.st, plan));
                stats.inc("twin_queries");
                if o1 != o2 {
                    fail!("restarted-state-answers-differently-from-twin", *a, format!("{:?} vs {:?}", o1.iter().map(|x| x.1.render()).collect::<Vec<_>>(), o2.iter().map(|x| x.1.render()).collect::<Vec<_>>()));
                }
                for &c in confs {
                    if let Err(e) = confidence_roundtrip(c) {
                        fail!("confidence-round-trip", *a, e);
                    }
                    stats.inc("confidence_roundtrips");
                }
                for (_, v) in &o1 {
                    if let Val::Ci(Out::Ok(iv)) = v {
                        if let Err(e) = M::interval_roundtrip(iv) {
                            fail!("interval-round-trip", *a, e);
                        }
                        stats.inc("interval_roundtrips");
                    }
                }
            }
            _ => {}
        }
        for s in w.slots.iter().flatten() {
            reach.states.insert(len_bucket(s.model.total() as u32) | (((s.model.merges > 0) as u32) << 10));
        }
    }
    for i in w.live() {
        let (Some(s), Some(t)) = (w.get(i), tw.get(i)) else { continue };
        reach.trees.push(s.model.tree);
        reach.records += s.model.total();
        let (f1, f2) = (M::fingerprint(&s.st), M::fingerprint(&t.st));
        if f1 != f2 {
            fail!("restarted-state-diverges-from-never-restarted-twin", i, format!("at the end of the run: restarted {f1} twin {f2}"));
        }
        let plan = ObsPlan { confs: &[18, 19, 20, 0, 29], unguarded: false };
        if M::observe(&s.st, plan) != M::observe(&t.st, plan) {
            fail!("restarted-state-answers-differently-from-twin", i, "at the end of the run".to_string());
        }
    }
    reach.shape = dg.0;
    (vec![], reach, fired.into_iter().collect())
}

/// Seeded checkpoint / crash-restore history.
pub fn generate<M: Machine>(verif_seed: u64, run: u64) -> Trace {
    let tag = format!("C20/checkpoint/{}", M::name());
    let mut r = Rng::new(mix(verif_seed, &tag, run));
    let flt = M::FLT;
    let positive = matches!(M::TRANSFORM, Transform::Ln | Transform::Recip);
    let max_len = *r.pick(&[8usize, 32, 128, 512]);
    let len0 = r.usize_in(1, max_len);
    let len1 = if M::STREAMS == 2 { if M::LOCKSTEP { len0 } else { r.usize_in(1, max_len) } } else { 0 };
    let family = if flt == Flt::Int { r.below(10) as u8 } else { *r.pick(&[0u8, 1, 2, 3, 5, 6, 7, 8, 9]) };
    let scale_exp = if flt == Flt::Int { 0 } else { r.range(-20, 20) as i32 };
    let mut tapes = [
        TapeSpec::Gen { family, seed: r.next_u64(), len: len0 as u32, flt, positive, scale_exp },
        TapeSpec::Gen { family: *r.pick(&[0u8, 1, 2, 7]), seed: r.next_u64(), len: len1 as u32, flt, positive, scale_exp },
    ];
    // two independent samples that happen to hold the same observations in a different order (an
    // A/A comparison): once both are complete the two halves of the state agree in count, total
    // and sum of squares as far as any query can tell, and differ only in their pending rounding
    // residues - the checkpoint at the end of the run is taken in exactly that state
    let len1 = if M::STREAMS == 2 && !M::LOCKSTEP && flt != Flt::Int && r.chance(0.2) {
        let mut t = tapes[0].materialize();
        for i in (1..t.len()).rev() {
            let j = r.below(i as u64 + 1) as usize;
            t.swap(i, j);
        }
        tapes[1] = TapeSpec::Explicit(t);
        len0
    } else {
        len1
    };
    let n_workers = r.usize_in(1, 4) as u16;
    let p_ckpt = *r.pick(&[0.1, 0.3, 0.6]);
    let p_crash = *r.pick(&[0.1, 0.3, 0.6]);
    // refused calls (only the machines that can refuse one); off in half of the runs
    let can_refuse = positive || M::LOCKSTEP;
    let p_refuse = if can_refuse { *r.pick(&[0.0, 0.0, 0.1, 0.3]) } else { 0.0 };
    let refuse_payloads: Vec<Bits> = if positive {
        crate::faulty::nonpositive_payloads(flt).into_iter().map(|x| x.1).collect()
    } else {
        vec![match flt {
            Flt::F32 => (1.5f32).to_bits() as u64,
            _ => (1.5f64).to_bits(),
        }]
    };
    let mut tr = Trace {
        property: "C20".into(),
        config: "checkpoint".into(),
        machine: M::name(),
        verif_seed,
        run_index: run,
        exact_data: false,
        isolated: false,
        tapes,
        events: Vec::new(),
        knobs: json!({"p_checkpoint": p_ckpt, "p_crash": p_crash, "p_refused_call": p_refuse, "workers": n_workers}),
        violation: None,
        extra: Value::Null,
    };
    let mut remaining = [len0, len1];
    let mut live: Vec<u16> = Vec::new();
    let mut ckpt: Vec<u16> = Vec::new();
    let mut next_slot = n_workers;
    let mut steps = 0;
    // a checkpoint of a not-yet-used (empty) state now and then
    while (remaining[0] > 0 || remaining[1] > 0) && steps < 600 {
        steps += 1;
        let choice = r.weighted(&[8, if live.len() >= 2 { 2 } else { 0 }, if live.is_empty() { 0 } else { 1 }, if live.is_empty() { 0 } else { 1 }, if live.is_empty() { 0 } else { 2 }]);
        let mut touched: Option<u16> = None;
        match choice {
            0 => {
                let stream = if M::STREAMS == 2 && !M::LOCKSTEP {
                    if remaining[0] == 0 {
                        1
                    } else if remaining[1] == 0 {
                        0
                    } else {
                        r.below(2) as usize
                    }
                } else {
                    0
                };
                let len = *r.pick(&[0u32, 1, 1, 2, 3, 7, 20, 100]);
                let style = r.below(M::N_STYLES as u64) as u8;
                let dst = r.below(n_workers as u64) as u16;
                let dual = M::LOCKSTEP || (M::FAMILY == Family::Unpaired && unpaired_style_is_dual(style));
                if dual {
                    let t0 = (len as usize).min(remaining[0]);
                    let t1 = (len as usize).min(remaining[1]);
                    let (t0, t1) = if M::LOCKSTEP { (t0.min(t1), t0.min(t1)) } else { (t0, t1) };
                    remaining[0] -= t0;
                    remaining[1] -= t1;
                } else {
                    let t = (len as usize).min(remaining[stream]);
                    remaining[stream] -= t;
                }
                if !live.contains(&dst) {
                    live.push(dst);
                }
                tr.events.push(Event::Deliver { dst, stream: stream as u8, len, style, ctor: r.below(M::N_EMPTY as u64) as u8 });
                if p_refuse > 0.0 && r.chance(p_refuse) {
                    let payload = *r.pick(&refuse_payloads);
                    tr.events.push(Event::Fault { dst, stream: 0, len: 0, style: r.below(M::N_STYLES as u64) as u8, kind: FK_REFUSED, pos: 0, payload });
                }
                touched = Some(dst);
            }
            1 => {
                let i = r.below(live.len() as u64) as usize;
                let mut j = r.below(live.len() as u64 - 1) as usize;
                if j >= i {
                    j += 1;
                }
                let (a, b) = (live[i], live[j]);
                let dst = if r.chance(0.7) { a } else { let d = next_slot; next_slot += 1; d };
                live.retain(|&s| s != a && s != b);
                live.push(dst);
                ckpt.retain(|&s| s != a && s != b && s != dst);
                tr.events.push(Event::Merge { a, b, op: r.below(M::N_MERGE as u64) as u8, dst });
                touched = Some(dst);
            }
            2 => {
                let a = live[r.below(live.len() as u64) as usize];
                ckpt.retain(|&s| s != a);
                tr.events.push(Event::MergeEmpty { a, side: r.below(2) as u8, op: r.below(3) as u8, ctor: r.below(M::N_EMPTY as u64) as u8 });
                touched = Some(a);
            }
            3 => {
                if live.len() < 8 {
                    let a = live[r.below(live.len() as u64) as usize];
                    let dst = next_slot;
                    next_slot += 1;
                    live.push(dst);
                    tr.events.push(Event::Fork { a, dst, how: r.below(2) as u8 });
                    touched = Some(dst);
                }
            }
            _ => {
                let a = live[r.below(live.len() as u64) as usize];
                tr.events.push(Event::Query { a, confs: crate::free::draw_confs(&mut r) });
            }
        }
        // the chaos task: checkpoints are biased to land right after the operation that just
        // touched a slot (merge, fork, first delivery), crashes hit slots that have one
        if let Some(a) = touched {
            if r.chance(p_ckpt) {
                tr.events.push(Event::Checkpoint { a, enc: r.below(2) as u8 });
                if !ckpt.contains(&a) {
                    ckpt.push(a);
                }
            }
        }
        if !ckpt.is_empty() && r.chance(p_crash) {
            let a = ckpt[r.below(ckpt.len() as u64) as usize];
            tr.events.push(Event::CrashRestore { a });
            if r.chance(0.5) {
                tr.events.push(Event::Query { a, confs: crate::free::draw_confs(&mut r) });
            }
        }
    }
    for &a in &live {
        if r.chance(0.5) {
            tr.events.push(Event::Checkpoint { a, enc: r.below(2) as u8 });
            tr.events.push(Event::CrashRestore { a });
        }
    }
    live.sort_unstable();
    while live.len() > 1 {
        let a = live[0];
        let b = live.remove(1);
        tr.events.push(Event::Merge { a, b, op: r.below(M::N_MERGE as u64) as u8, dst: a });
    }
    if let Some(&a) = live.first() {
        tr.events.push(Event::Checkpoint { a, enc: r.below(2) as u8 });
        tr.events.push(Event::CrashRestore { a });
        tr.events.push(Event::Query { a, confs: crate::free::draw_confs(&mut r) });
    }
    tr
}
