//! Two further fault-free configurations:
//!  * `trees`: every oriented binary merge tree over k <= 5 labelled chunks, each also with an
//!    empty chunk at every leaf and an empty operand at every node in turn (exhaustive as
//!    schedules; data, chunk sizes, delivery styles and operators are seeded);
//!  * `long`: long streams (10^5 .. 10^7 records) split into few or very many chunks, for the
//!    "independent of the number of terms" clause of C08.

use crate::free::Trace;
use crate::machines::*;
use crate::rng::{mix, Rng};
use crate::tape::*;
use crate::world::Event;
use serde_json::{json, Value};

#[derive(Clone, Debug)]
pub enum Tree {
    Leaf(u8),
    /// (left operand, right operand)
    Node(Box<Tree>, Box<Tree>),
}

/// all oriented binary trees whose leaves are exactly the labels in `set` (a bit mask)
fn trees_over(set: u32) -> Vec<Tree> {
    let labels: Vec<u8> = (0..32u8).filter(|i| set & (1 << i) != 0).collect();
    if labels.len() == 1 {
        return vec![Tree::Leaf(labels[0])];
    }
    let mut out = Vec::new();
    let lowest = 1u32 << labels[0];
    // proper non-empty subsets L containing the lowest label (so each unordered split is seen once)
    let mut l = set;
    loop {
        l = (l.wrapping_sub(1)) & set;
        if l == 0 {
            break;
        }
        if l & lowest == 0 || l == set {
            continue;
        }
        let r = set & !l;
        let tl = trees_over(l);
        let tr = trees_over(r);
        for a in &tl {
            for b in &tr {
                out.push(Tree::Node(Box::new(a.clone()), Box::new(b.clone())));
                out.push(Tree::Node(Box::new(b.clone()), Box::new(a.clone())));
            }
        }
    }
    out
}

/// (2k-3)!! * 2^(k-1) oriented trees over k labelled leaves (cached for k <= 5)
pub fn all_trees(k: usize) -> &'static Vec<Tree> {
    static CACHE: std::sync::OnceLock<Vec<Vec<Tree>>> = std::sync::OnceLock::new();
    let c = CACHE.get_or_init(|| (0..=5usize).map(|k| if k < 2 { vec![] } else { trees_over((1u32 << k) - 1) }).collect());
    &c[k]
}

pub fn n_schedules() -> u64 {
    (2..=5usize).map(|k| all_trees(k).len() as u64 * (2 * k as u64)).sum()
}

/// schedule number -> (k, tree index, variant); variant 0 = plain, 1..=k empty leaf, k+1..=2k-1 empty operand at node
pub fn schedule_coords(mut s: u64) -> (usize, usize, usize) {
    for k in 2..=5usize {
        let nt = all_trees(k).len() as u64;
        let per = 2 * k as u64;
        if s < nt * per {
            return (k, (s / per) as usize, (s % per) as usize);
        }
        s -= nt * per;
    }
    (2, 0, 0)
}

fn emit(t: &Tree, ops_left: &[u8], r: &mut Rng, node_no: &mut usize, empty_node: Option<usize>, n_empty: u8, events: &mut Vec<Event>) -> u16 {
    match t {
        Tree::Leaf(i) => *i as u16,
        Tree::Node(a, b) => {
            let sa = emit(a, ops_left, r, node_no, empty_node, n_empty, events);
            let sb = emit(b, ops_left, r, node_no, empty_node, n_empty, events);
            let op = *r.pick(ops_left);
            events.push(Event::Merge { a: sa, b: sb, op, dst: sa });
            if empty_node == Some(*node_no) {
                events.push(Event::MergeEmpty { a: sa, side: r.below(2) as u8, op: r.below(3) as u8, ctor: r.below(n_empty as u64) as u8 });
            }
            *node_no += 1;
            sa
        }
    }
}

pub fn tree_shape(t: &Tree) -> String {
    match t {
        Tree::Leaf(i) => format!("{i}"),
        Tree::Node(a, b) => format!("({} {})", tree_shape(a), tree_shape(b)),
    }
}

/// One run of the `trees` configuration: schedule `sched` (exhaustive coordinate), data `data_no` (seeded).
pub fn generate_tree_run<M: Machine>(verif_seed: u64, sched: u64, data_no: u64) -> Trace {
    let (k, ti, variant) = schedule_coords(sched);
    let trees = all_trees(k);
    let tree = &trees[ti];
    let tag = format!("C09/trees/{}", M::name());
    let mut r = Rng::new(mix(verif_seed, &tag, sched * 1000 + data_no));
    let flt = M::FLT;
    let positive = matches!(M::TRANSFORM, Transform::Ln | Transform::Recip);
    let family = if flt == Flt::Int { r.below(10) as u8 } else { r.below(N_FAMILIES as u64) as u8 };
    let exact_data = family == FAM_EXACT && !positive && flt != Flt::Int;
    let empty_leaf = if (1..=k).contains(&variant) { Some(variant - 1) } else { None };
    let empty_node = if variant > k { Some(variant - k - 1) } else { None };
    let lens: Vec<u32> = (0..k).map(|i| if empty_leaf == Some(i) { 0 } else { r.usize_in(1, 8) as u32 }).collect();
    let total: u32 = lens.iter().sum();
    let scale_exp = if flt == Flt::Int { 0 } else { r.range(-20, 20) as i32 };
    let tapes = [
        TapeSpec::Gen { family, seed: r.next_u64(), len: total, flt, positive, scale_exp },
        TapeSpec::Gen { family: if exact_data { family } else { *r.pick(&[0u8, 1, 2, 3, 7]) }, seed: r.next_u64(), len: if M::STREAMS == 2 { total } else { 0 }, flt, positive, scale_exp },
    ];
    let mut events = Vec::new();
    for (i, &len) in lens.iter().enumerate() {
        let style = r.below(M::N_STYLES as u64) as u8;
        let ctor = r.below(M::N_EMPTY as u64) as u8;
        if M::STREAMS == 2 && !M::LOCKSTEP && !unpaired_style_is_dual(style) {
            // feed both samples of an Unpaired chunk so that a crossed merge is visible
            events.push(Event::Deliver { dst: i as u16, stream: 0, len, style, ctor });
            events.push(Event::Deliver { dst: i as u16, stream: 1, len: (len + 1) / 2, style, ctor });
        } else {
            events.push(Event::Deliver { dst: i as u16, stream: 0, len, style, ctor });
        }
    }
    // operators whose first operand is the left one
    let ops_left: Vec<u8> = if M::N_MERGE == 6 { vec![0, 2, 3] } else { vec![0, 2] };
    let mut node_no = 0;
    let root = emit(tree, &ops_left, &mut r, &mut node_no, empty_node, M::N_EMPTY, &mut events);
    events.push(Event::Query { a: root, confs: crate::free::draw_confs(&mut r) });
    Trace {
        property: "C09".into(),
        config: "trees".into(),
        machine: M::name(),
        verif_seed,
        run_index: sched * 1000 + data_no,
        exact_data,
        isolated: sched % 16 == 0,
        tapes,
        events,
        knobs: json!({"k": k, "tree": tree_shape(tree), "variant": if variant == 0 { "plain".to_string() } else if let Some(l) = empty_leaf { format!("empty chunk at leaf {l}") } else { format!("empty operand after node {}", empty_node.unwrap()) }, "family": FAMILY_NAMES[family as usize % FAMILY_NAMES.len()], "chunk_lens": lens}),
        violation: None,
        extra: Value::Null,
    }
}

/// One run of the `long` configuration (C08).
pub fn generate_long_run<M: Machine>(verif_seed: u64, run: u64, max_pow10: u32) -> Trace {
    let tag = format!("C08/long/{}", M::name());
    let mut r = Rng::new(mix(verif_seed, &tag, run));
    let flt = M::FLT;
    // 10^5 .. 10^max
    let exp = 5.0 + r.unit() * (max_pow10 as f64 - 5.0);
    let n = 10f64.powf(exp) as u32;
    let mut family = *r.pick(&[0u8, 5, 8, 6, 7, 9, 1, 3, FAM_ALTERNATING, FAM_ALTERNATING, FAM_INT_BEYOND_MANTISSA]);
    if M::FAMILY == Family::Sum && r.chance(0.5) {
        family = *r.pick(&[FAM_TINY, FAM_HUGE, FAM_VANISHING, FAM_VANISHING, FAM_NEAR_UNDERFLOW, FAM_NEAR_UNDERFLOW]);
    }
    // every third long run is a head followed by increments below the resolution of the sum
    if run % 3 == 0 {
        family = FAM_VANISHING;
    }
    let scale_exp = if family == FAM_TINY || family == FAM_HUGE || family == FAM_NEAR_UNDERFLOW { 0 } else { r.range(-10, 10) as i32 };
    let scale_exp = if M::FAMILY == Family::Mean && (family < FAM_TINY || family == FAM_ALTERNATING) && r.chance(0.1) {
        // squares underflow, records are normal numbers
        match flt {
            Flt::F32 => -(r.range(70, 100) as i32),
            _ => -(r.range(520, 800) as i32),
        }
    } else {
        scale_exp
    };
    let tapes = [TapeSpec::Gen { family, seed: r.next_u64(), len: n, flt, positive: false, scale_exp }, TapeSpec::Explicit(vec![])];
    // number of chunks: 1, few, many, very many (capped so that the event list stays small)
    let chunks = (*r.pick(&[1u32, 7, 1000, 30_000, 100_000])).min(n);
    let base = n / chunks;
    let workers = r.usize_in(1, 4) as u16;
    let style_pool: Vec<u8> = (0..M::N_STYLES).filter(|_| r.chance(0.5)).collect();
    let mut style_pool = if style_pool.is_empty() { vec![r.below(M::N_STYLES as u64) as u8] } else { style_pool };
    // a third of the runs are pure right folds: every chunk is merged with the accumulated state
    // as the RIGHT operand (acc = part + acc), so `chunks` such merges happen in a row
    if r.chance(0.34) {
        style_pool = vec![if M::FAMILY == Family::Sum { 3 } else { 6 }];
    }
    let mut events = Vec::with_capacity(chunks as usize + 8);
    let mut left = n;
    for c in 0..chunks {
        let len = if c + 1 == chunks { left } else { base.min(left) };
        left -= len;
        events.push(Event::Deliver { dst: (c % workers as u32) as u16, stream: 0, len, style: *r.pick(&style_pool), ctor: 0 });
    }
    let policy = r.below(3);
    let mut order: Vec<u16> = (0..workers.min(chunks as u16).max(1)).collect();
    while order.len() > 1 {
        let a = order[0];
        let b = order.remove(1);
        let op = match policy {
            0 => 0, // a + b
            1 => 1, // b + a : accumulated state on the right
            _ => 2, // a += b
        };
        events.push(Event::Merge { a, b, op, dst: a });
    }
    events.push(Event::Query { a: 0, confs: vec![18] });
    Trace {
        property: "C08".into(),
        config: "long".into(),
        machine: M::name(),
        verif_seed,
        run_index: run,
        exact_data: false,
        isolated: false,
        tapes,
        events,
        knobs: json!({"n": n, "chunks": chunks, "family": FAMILY_NAMES[family as usize % FAMILY_NAMES.len()], "workers": workers, "styles": style_pool.iter().map(|&s| M::style_name(s)).collect::<Vec<_>>(), "reduce": (["a+b", "b+a (accumulated on the right)", "a+=b"][policy as usize])}),
        violation: None,
        extra: Value::Null,
    }
}

/// One run of the C09 `long` configuration: 10^5 .. 3*10^5 records (so that the sample count
/// crosses the 100 000 threshold at which the mean intervals switch from Student-t to the normal
/// quantile), a handful of chunks of very unequal size, merges in both orientations.
pub fn generate_long_c09<M: Machine>(verif_seed: u64, run: u64) -> Trace {
    let tag = format!("C09/long/{}", M::name());
    let mut r = Rng::new(mix(verif_seed, &tag, run));
    let flt = M::FLT;
    let positive = matches!(M::TRANSFORM, Transform::Ln | Transform::Recip);
    let n = r.usize_in(60_000, 300_000) as u32;
    let family = if flt == Flt::Int { r.below(10) as u8 } else { *r.pick(&[0u8, 1, 2, 3, 7, 9]) };
    let scale_exp = if flt == Flt::Int { 0 } else { r.range(-10, 10) as i32 };
    let n1 = if M::STREAMS == 2 { if M::LOCKSTEP { n } else { r.usize_in(60_000, 300_000) as u32 } } else { 0 };
    let tapes = [
        TapeSpec::Gen { family, seed: r.next_u64(), len: n, flt, positive, scale_exp },
        TapeSpec::Gen { family: *r.pick(&[0u8, 1, 2, 7]), seed: r.next_u64(), len: n1, flt, positive, scale_exp },
    ];
    let workers = r.usize_in(2, 4) as u16;
    let mut events = Vec::new();
    // chunk sizes: a few huge ones around the 100 000 boundary and some tiny ones
    let mut left = [n, n1];
    let mut c = 0u32;
    while (left[0] > 0 || left[1] > 0) && c < 64 {
        let stream = if M::STREAMS == 2 && !M::LOCKSTEP { if left[0] == 0 { 1 } else if left[1] == 0 { 0 } else { r.below(2) as usize } } else { 0 };
        let len = match r.below(4) {
            0 => r.usize_in(0, 3) as u32,
            1 => r.usize_in(99_990, 100_010) as u32,
            2 => r.usize_in(1_000, 50_000) as u32,
            _ => left[stream],
        };
        let style = r.below(M::N_STYLES as u64) as u8;
        let dual = M::LOCKSTEP || (M::FAMILY == Family::Unpaired && unpaired_style_is_dual(style));
        if dual {
            let t0 = len.min(left[0]);
            let t1 = len.min(left[1]);
            let (t0, t1) = if M::LOCKSTEP { (t0.min(t1), t0.min(t1)) } else { (t0, t1) };
            left[0] -= t0;
            left[1] -= t1;
        } else {
            left[stream] -= len.min(left[stream]);
        }
        events.push(Event::Deliver { dst: (c % workers as u32) as u16, stream: stream as u8, len, style, ctor: 0 });
        if r.chance(0.2) {
            events.push(Event::Query { a: (c % workers as u32) as u16, confs: crate::free::draw_confs(&mut r) });
        }
        c += 1;
    }
    let mut order: Vec<u16> = (0..workers.min(c.max(1) as u16)).collect();
    while order.len() > 1 {
        let a = order[0];
        let b = order.remove(1);
        events.push(Event::Merge { a, b, op: r.below(M::N_MERGE as u64) as u8, dst: a });
    }
    events.push(Event::Query { a: 0, confs: vec![18, 19, 20, 0, 29] });
    Trace {
        property: "C09".into(),
        config: "long".into(),
        machine: M::name(),
        verif_seed,
        run_index: run,
        exact_data: false,
        isolated: true,
        tapes,
        events,
        knobs: json!({"n": [n, n1], "family": FAMILY_NAMES[family as usize % FAMILY_NAMES.len()], "workers": workers}),
        violation: None,
        extra: Value::Null,
    }
}

#[cfg(test)]
mod tests {
    use super::*;
    #[test]
    fn tree_counts() {
        assert_eq!(all_trees(2).len(), 2);
        assert_eq!(all_trees(3).len(), 12);
        assert_eq!(all_trees(4).len(), 120);
        assert_eq!(all_trees(5).len(), 1680);
        // all distinct
        let mut s: Vec<String> = all_trees(5).iter().map(tree_shape).collect();
        s.sort();
        s.dedup();
        assert_eq!(s.len(), 1680);
    }
}
