//! Tapes: the finite record sequences a simulated source emits. A tape is either explicit
//! (bit patterns, as stored in minimised replay files) or a recipe (family, seed, length) that is
//! regenerated deterministically — long-stream runs keep only the recipe in their replay file.

use crate::machines::{Bits, Flt};
use crate::rng::Rng;
use serde_json::{json, Value};

#[derive(Clone, Debug, PartialEq)]
pub enum TapeSpec {
    Explicit(Vec<Bits>),
    Gen { family: u8, seed: u64, len: u32, flt: Flt, positive: bool, scale_exp: i32 },
}

pub const N_FAMILIES: u8 = 10;
/// families 10 and 11 (extreme magnitudes) are only used for KahanSum under C08: squares would
/// underflow / overflow in the statistics machines
pub const FAM_TINY: u8 = 10;
pub const FAM_HUGE: u8 = 11;
pub const FAM_VANISHING: u8 = 12;
pub const FAM_NEAR_UNDERFLOW: u8 = 13;
/// sign-alternating records of (nearly) one magnitude: the running sum stays near zero while the
/// running sum of squares grows (the two registers of a statistics state live on different scales)
pub const FAM_ALTERNATING: u8 = 14;
/// integer-valued records whose running sum lies beyond the mantissa (2^24 in f32, 2^53 in f64):
/// every rounding residue is itself a small integer, i.e. a value that later records take too
pub const FAM_INT_BEYOND_MANTISSA: u8 = 15;
/// a handful of distinct powers of two: sums, reciprocal sums (and, up to the rounding of ln 2,
/// log sums) of short chunks are exact, so different chunks of one run often agree bit for bit in
/// count and mean while their spreads differ - two states that a too-coarse key cannot tell apart
pub const FAM_POW2: u8 = 16;
pub const FAMILY_NAMES: [&str; 17] = [
    "uniform-positive",
    "mixed-sign-gaussian",
    "log-uniform-wide",
    "near-constant-on-offset",
    "exact-small-integers",
    "constant",
    "cancelling-pairs",
    "mixed-magnitudes",
    "big-head-small-increments",
    "random-walk-increments",
    "subnormal-range",
    "huge-magnitudes",
    "head-plus-vanishing-increments",
    "just-above-underflow",
    "alternating-sign-near-constant",
    "integers-beyond-the-mantissa",
    "few-powers-of-two",
];
pub const FAM_EXACT: u8 = 4;

impl TapeSpec {
    pub fn len(&self) -> usize {
        match self {
            TapeSpec::Explicit(v) => v.len(),
            TapeSpec::Gen { len, .. } => *len as usize,
        }
    }
    pub fn materialize(&self) -> Vec<Bits> {
        match self {
            TapeSpec::Explicit(v) => v.clone(),
            TapeSpec::Gen { family, seed, len, flt, positive, scale_exp } => {
                gen_tape(*family, *seed, *len as usize, *flt, *positive, *scale_exp)
            }
        }
    }
    pub fn to_json(&self) -> Value {
        match self {
            TapeSpec::Explicit(v) => json!({"hex": v.iter().map(|b| format!("{:x}", b)).collect::<Vec<_>>() }),
            TapeSpec::Gen { family, seed, len, flt, positive, scale_exp } => json!({"gen": {
                "family": family, "family_name": FAMILY_NAMES[*family as usize % FAMILY_NAMES.len()], "seed": format!("{:x}", seed), "len": len,
                "flt": match flt { Flt::F32 => "f32", Flt::F64 => "f64", Flt::Int => "int" },
                "positive": positive, "scale_exp": scale_exp }}),
        }
    }
    pub fn from_json(v: &Value) -> Result<TapeSpec, String> {
        if let Some(h) = v.get("hex").and_then(|x| x.as_array()) {
            let mut out = Vec::with_capacity(h.len());
            for x in h {
                out.push(u64::from_str_radix(x.as_str().ok_or("hex entry not a string")?, 16).map_err(|e| e.to_string())?);
            }
            return Ok(TapeSpec::Explicit(out));
        }
        let g = v.get("gen").ok_or("tape without hex or gen")?;
        Ok(TapeSpec::Gen {
            family: g["family"].as_u64().ok_or("family")? as u8,
            seed: u64::from_str_radix(g["seed"].as_str().ok_or("seed")?, 16).map_err(|e| e.to_string())?,
            len: g["len"].as_u64().ok_or("len")? as u32,
            flt: match g["flt"].as_str().ok_or("flt")? {
                "f32" => Flt::F32,
                "f64" => Flt::F64,
                _ => Flt::Int,
            },
            positive: g["positive"].as_bool().ok_or("positive")?,
            scale_exp: g["scale_exp"].as_i64().ok_or("scale_exp")? as i32,
        })
    }
}

fn enc(x: f64, flt: Flt) -> Bits {
    match flt {
        Flt::F32 => (x as f32).to_bits() as u64,
        _ => x.to_bits(),
    }
}

/// Deterministic tape generator. Values are produced in f64 and rounded to the element type, so
/// that every record is a value of the element type; magnitudes are bounded so that neither the
/// sums nor the sums of squares can overflow in the fault-free configuration.
pub fn gen_tape(family: u8, seed: u64, len: usize, flt: Flt, positive: bool, scale_exp: i32) -> Vec<Bits> {
    let mut r = Rng::new(seed ^ 0x7A9E_5EED);
    let mut out = Vec::with_capacity(len);
    if flt == Flt::Int {
        // boolean tape with success probability chosen by the family number
        let p = [0.5, 0.1, 0.9, 0.01, 0.99, 0.0, 1.0, 0.3, 0.7, 0.5][family as usize % 10];
        for _ in 0..len {
            out.push(r.chance(p) as u64);
        }
        return out;
    }
    let scale = 2f64.powi(scale_exp);
    let fix = |x: f64| -> f64 {
        let mut x = x;
        if positive {
            x = x.abs();
            if x == 0.0 {
                x = scale;
            }
        }
        x
    };
    // family-level parameters drawn once per tape
    let delta = 10f64.powf(-(r.unit() * if flt == Flt::F32 { 3.5 } else { 8.0 }));
    let offset = scale * (1.0 + r.unit());
    let konst = scale * (0.1 + r.unit());
    let big = scale * 10f64.powf(2.0 + 4.0 * r.unit());
    let walk_step = scale * 1e-3;
    let tiny_ratio = 10f64.powf(-3.0 - 17.0 * r.unit());
    // the same relative to what this tape can resolve: an increment of u * 10^-k, k uniform in
    // [0, log10(len) + 1], is individually invisible in the running sum while len of them together
    // weigh between len*u and u/10 (half of the family-12 tapes use this ratio)
    let u_flt = if flt == Flt::F32 { 2f64.powi(-24) } else { 2f64.powi(-53) };
    let sub_resolution_ratio = u_flt * 10f64.powf(-r.unit() * ((len.max(1) as f64).log10() + 1.0));
    let vanishing_ratio = if r.chance(0.5) { sub_resolution_ratio } else { tiny_ratio };
    let mut pending: Option<f64> = None;
    let mut special_prev = false;
    for i in 0..len {
        let x = match family {
            0 => scale * (0.5 + r.unit()),
            1 => scale * r.gaussish(),
            2 => {
                let decades = if flt == Flt::F32 { 10.0 } else { 40.0 };
                let m = 10f64.powf((r.unit() * 2.0 - 1.0) * decades);
                if r.chance(0.5) || positive {
                    m
                } else {
                    -m
                }
            }
            3 => offset * (1.0 + delta * (r.unit() - 0.5)),
            4 => {
                // integers in [-32, 32] scaled by a power of two: all partial sums and sums of
                // squares of up to 4096 terms are exactly representable even in f32
                let k = r.range(-32, 32) as f64;
                let k = if positive { k.abs().max(1.0) } else { k };
                k * scale
            }
            5 => konst,
            6 => {
                // cancelling pairs (x, -x) in random order with small residues
                if let Some(p) = pending.take() {
                    -p
                } else if r.chance(0.8) {
                    let v = scale * 10f64.powf(r.unit() * 6.0);
                    pending = Some(v);
                    v
                } else {
                    scale * r.gaussish() * 1e-3
                }
            }
            7 => {
                if r.chance(0.02) {
                    big * (0.5 + r.unit()) * if r.chance(0.5) { 1.0 } else { -1.0 }
                } else {
                    scale * r.unit() * 1e-2
                }
            }
            8 => {
                if i == 0 {
                    big
                } else {
                    scale * 0.1
                }
            }
            13 => {
                // normal numbers just above the underflow threshold: the rounding error of every
                // addition is itself subnormal
                let minp = if flt == Flt::F32 { f32::MIN_POSITIVE as f64 } else { f64::MIN_POSITIVE };
                minp * 10f64.powf(r.unit() * 6.0) * if r.chance(0.8) { 1.0 } else { -1.0 }
            }
            12 => {
                // a head followed by same-sign increments that are 3 .. 20 decades smaller (far
                // below the resolution of the running sum: they live in the compensation only)
                if i == 0 {
                    big
                } else {
                    big * vanishing_ratio
                }
            }
            15 => {
                if i == 0 {
                    let mant = if flt == Flt::F32 { 24 } else { 53 };
                    scale * 2f64.powi(mant) * (1 + r.below(3)) as f64
                } else if r.chance(0.85) {
                    scale * (1 + r.below(4)) as f64
                } else {
                    -scale * (1 + r.below(4)) as f64
                }
            }
            14 => {
                // +a, -a, +a, ... with a exactly constant (delta below half an ulp) or nearly so
                let a = konst * if tiny_ratio < 1e-12 { 1.0 } else { 1.0 + delta * (r.unit() - 0.5) };
                if i % 2 == 0 {
                    a
                } else {
                    -a
                }
            }
            16 => scale * 2f64.powi(r.range(-2, 2) as i32) * if positive || r.chance(0.7) { 1.0 } else { -1.0 },
            9 => walk_step * (1.0 + (i % 7) as f64) * if r.chance(0.9) { 1.0 } else { -1.0 },
            10 => {
                // the subnormal range of the element type (sums of subnormals are exact; the
                // oracle has an absolute floor there)
                let sub = if flt == Flt::F32 { f32::from_bits(1) as f64 } else { f64::from_bits(1) };
                let minp = if flt == Flt::F32 { f32::MIN_POSITIVE as f64 } else { f64::MIN_POSITIVE };
                let _ = minp;
                // whole tape inside the subnormal range
                sub * (r.below(5000) as f64) * if r.chance(0.7) { 1.0 } else { -1.0 }
            }
            _ => {
                // huge magnitudes: 2^-24 of the largest finite value, so that 10^7 terms cannot overflow
                let max = if flt == Flt::F32 { f32::MAX as f64 } else { f64::MAX };
                max * 2f64.powi(-26) * (0.5 + r.unit()) * if r.chance(0.6) { 1.0 } else { -1.0 }
            }
        };
        // boundary values: identity elements of the accumulation spaces (0 for sums, 1 whose
        // logarithm is 0 and whose reciprocal is 1), signed zero, the scale itself. Two in a row
        // now and then, so that whole chunks consist of them.
        let x = if family < FAM_TINY && (r.chance(0.03) || (i > 0 && special_prev && r.chance(0.5))) {
            special_prev = true;
            let sp: &[f64] = if family == FAM_EXACT { &[0.0, 1.0, -1.0] } else if positive { &[1.0, 1.0, 2.0, 0.5] } else { &[0.0, 0.0, -0.0, 1.0, -1.0] };
            let v = sp[r.below(sp.len() as u64) as usize];
            if family == FAM_EXACT {
                v * scale
            } else {
                v
            }
        } else {
            special_prev = false;
            x
        };
        let x = fix(x);
        // round to the element type and re-fix zero if positivity is required
        let b = enc(x, flt);
        out.push(b);
    }
    out
}

pub fn decode(b: Bits, flt: Flt) -> f64 {
    match flt {
        Flt::F32 => f32::from_bits(b as u32) as f64,
        Flt::F64 => f64::from_bits(b),
        Flt::Int => b as f64,
    }
}
