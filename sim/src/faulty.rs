//! Fault configuration, part 2: long-lived states under stream faults (C05 rejection clause and
//! lock-step refinement, C11 totality at any point of a history).
//!
//! The chaos task corrupts a record on the medium, closes a stream early, drops or duplicates a
//! record of one of two lock-step streams, at a seeded (or, for short tapes, every) position of
//! an otherwise valid delivery; deliveries, merges, forks and queries continue afterwards, so a
//! fault-then-continue history and a poisoned operand of a later merge are both reachable.
//!
//! Oracles: the delivery outcome is the documented one; after a rejected delivery the state is
//! bit-identical (Debug fingerprint) to a clone of the pre-state that received exactly the
//! accepted prefix in the same style; counters stay exact; every ci query is judged by
//! `cases::judge_ci` from the model's facts; Geometric/Harmonic states are compared at every
//! query with a real Arithmetic twin that received ln x / 1/x in lock step (C05).

use crate::cases::{facts_of, judge_ci, Expect};
use crate::free::{Reach, Trace};
use crate::machines::*;
use crate::oracle::{sorted_records, Stats, Violation};
use crate::rng::{mix, Digest, Rng};
use crate::tape::*;
use crate::world::*;
use serde_json::{json, Value};
use std::collections::BTreeSet;

pub const FK_CORRUPT: u8 = 0;
pub const FK_TRUNCATE: u8 = 1;
pub const FK_DROP: u8 = 2;
pub const FK_DUP: u8 = 3;

/// payloads the chaos task may write over a record (indices into this table are drawn, the
/// event stores the bits)
pub fn corrupt_payloads(flt: Flt) -> Vec<(&'static str, Bits)> {
    let e = |x: f64| match flt {
        Flt::F32 => (x as f32).to_bits() as u64,
        _ => x.to_bits(),
    };
    let (max, minp, sub) = match flt {
        Flt::F32 => (f32::MAX as f64, f32::MIN_POSITIVE as f64, f32::from_bits(1) as f64),
        _ => (f64::MAX, f64::MIN_POSITIVE, f64::from_bits(1)),
    };
    vec![
        ("NaN", e(f64::NAN)),
        ("+inf", e(f64::INFINITY)),
        ("-inf", e(f64::NEG_INFINITY)),
        ("MAX", e(max)),
        ("-MAX", e(-max)),
        ("MIN_POSITIVE", e(minp)),
        ("subnormal", e(sub * 3.0)),
        ("square-overflows", e(max.sqrt() * 4.0)),
        ("square-underflows", e(minp.sqrt() / 1024.0)),
        ("+0", e(0.0)),
        ("-0", e(-0.0)),
        ("negative", e(-2.5)),
        ("-subnormal", e(-sub)),
    ]
}

/// the six non-positive payloads of C05
pub fn nonpositive_payloads(flt: Flt) -> Vec<(&'static str, Bits)> {
    let e = |x: f64| match flt {
        Flt::F32 => (x as f32).to_bits() as u64,
        _ => x.to_bits(),
    };
    let (max, sub) = match flt {
        Flt::F32 => (f32::MAX as f64, f32::from_bits(1) as f64),
        _ => (f64::MAX, f64::from_bits(1)),
    };
    vec![("+0", e(0.0)), ("-0", e(-0.0)), ("negative", e(-2.5)), ("-subnormal", e(-sub)), ("-MAX", e(-max)), ("-inf", e(f64::NEG_INFINITY))]
}

pub fn payload_name(flt: Flt, bits: Bits) -> String {
    for (n, b) in corrupt_payloads(flt) {
        if b == bits {
            return n.to_string();
        }
    }
    format!("{:?}", decode(bits, flt))
}

pub struct FWorld<M: Machine> {
    pub w: World<M>,
    pub tw: World<M::Twin>,
    pub has_twin: bool,
    /// the run belongs to the C09 check: a rejected delivery that changes the state is reported
    /// as what it is for C09 - a history whose result differs from the batch over the accepted records
    pub c09_keyed: bool,
    /// C08 run: what a refused call may do to the state is left open (keep the accepted prefix,
    /// keep nothing, roll back), the model follows the count, and the sums are judged by the C08
    /// bound at every query
    pub c08_keyed: bool,
}

fn is_ops<M: Machine>() -> bool {
    M::FAMILY == Family::Mean && M::TRANSFORM != Transform::Diff
}

/// does a failing delivery in this style leave the accepted prefix in the state?
fn absorbs_prefix<M: Machine>(style: u8) -> bool {
    if is_ops::<M>() {
        matches!(style % 10, 0 | 1 | 2 | 3 | 7 | 8)
    } else {
        true
    }
}

fn dec<M: Machine>(b: Bits) -> f64 {
    decode(b, M::FLT)
}

/// Executes a fault trace. `known`: violation keys that are recorded but do not end the run.
pub fn exec<M: Machine>(tr: &Trace, stats: &mut Stats, known: &BTreeSet<String>) -> (Vec<Violation>, Reach, Vec<(String, u64)>) {
    exec_probe::<M>(tr, stats, known, None)
}

/// Like `exec`; additionally records the Debug fingerprint of the queried slot at every Query
/// event (Engine B compares them with what its threads computed).
pub fn exec_probe<M: Machine>(tr: &Trace, stats: &mut Stats, known: &BTreeSet<String>, mut probe: Option<&mut Vec<String>>) -> (Vec<Violation>, Reach, Vec<(String, u64)>) {
    let tapes = [tr.tapes[0].materialize(), tr.tapes[1].materialize()];
    let has_twin = matches!(M::TRANSFORM, Transform::Ln | Transform::Recip);
    let ttapes = if has_twin { [tapes[0].iter().map(|&b| M::twin_record(b)).collect(), Vec::new()] } else { [Vec::new(), Vec::new()] };
    let mut fw = FWorld::<M> { w: World::new(tapes), tw: World::new(ttapes), has_twin, c09_keyed: tr.property == "C09", c08_keyed: tr.property == "C08" };
    let mut reach = Reach::default();
    let mut dg = Digest::new();
    let mut fired: Vec<(String, u64)> = Vec::new();
    fn fire_into(fired: &mut Vec<(String, u64)>, k: String) {
        match fired.iter_mut().find(|(n, _)| *n == k) {
            Some(e) => e.1 += 1,
            None => fired.push((k, 1)),
        }
    }
    let mut out: Vec<Violation> = Vec::new();
    macro_rules! record {
        ($v:expr) => {{
            let v: Violation = $v;
            let fatal = !known.contains(&v.invariant);
            if !out.iter().any(|o| o.key() == v.key()) {
                out.push(v);
            }
            if fatal {
                reach.shape = dg.0;
                return (out, reach, fired);
            }
        }};
    }
    let final_confs: Vec<u8> = vec![18, 19, 20, 27, 2];
    for ev in &tr.events {
        dg.u64(ev.shape());
        reach.steps += 1;
        match ev {
            Event::Deliver { dst, stream, len, style, ctor } => {
                let idx = take_indices::<M>(&mut fw.w, *stream as usize, *len as usize, *style);
                for v in deliver_checked::<M>(&mut fw, *dst, *stream as usize, *style, *ctor, idx, stats, None) {
                    record!(v);
                }
            }
            Event::Fault { dst, stream, len, style, kind, pos, payload } => {
                let stream_i = (*stream as usize) % M::STREAMS.max(1);
                let mut idx = take_indices::<M>(&mut fw.w, stream_i, *len as usize, *style);
                let target = if idx[stream_i].is_empty() && M::STREAMS == 2 { 1 - stream_i } else { stream_i };
                let n = idx[target].len();
                let mut label = None;
                match *kind {
                    FK_CORRUPT if n > 0 => {
                        let at = idx[target][(*pos as usize) % n] as usize;
                        fw.w.tapes[target][at] = *payload;
                        if has_twin && target == 0 {
                            fw.tw.tapes[0][at] = M::twin_record(*payload);
                        }
                        let name = format!("corrupt:{}", payload_name(M::FLT, *payload));
                        fire_into(&mut fired, name.clone());
                        label = Some(name);
                    }
                    FK_TRUNCATE => {
                        let keep = (*pos as usize) % (n + 1);
                        if M::LOCKSTEP {
                            idx[0].truncate(keep);
                            idx[1].truncate(keep);
                        } else {
                            idx[target].truncate(keep);
                        }
                        fire_into(&mut fired, "early-eof".into());
                        label = Some("early-eof".into());
                    }
                    FK_DROP if n > 0 => {
                        idx[target].remove((*pos as usize) % n);
                        let name = if M::LOCKSTEP { "desync:drop" } else { "lost-record" };
                        fire_into(&mut fired, name.into());
                        label = Some(name.into());
                    }
                    FK_DUP if n > 0 => {
                        let at = (*pos as usize) % n;
                        let v = idx[target][at];
                        idx[target].insert(at, v);
                        let name = if M::LOCKSTEP { "desync:dup" } else { "duplicated-record" };
                        fire_into(&mut fired, name.into());
                        label = Some(name.into());
                    }
                    _ => {}
                }
                for v in deliver_checked::<M>(&mut fw, *dst, stream_i, *style, 0, idx, stats, label) {
                    record!(v);
                }
            }
            Event::Merge { .. } | Event::MergeEmpty { .. } | Event::Fork { .. } => {
                let info = fw.w.step(ev);
                if has_twin {
                    fw.tw.step(ev);
                }
                if let Some(Out::Panic(p)) = &info.outcome {
                    // merging partial states is total whatever they have absorbed (a state that took
                    // a NaN is still a state; the error belongs to the interval computation)
                    record!(Violation::new("C11", &format!("{}/merge-of-partial-states/panic", M::name()), 0, format!("{:?}: panicked: {}", ev, p)));
                }
                for &t in &info.touched {
                    if let Some(v) = count_check::<M>(&fw, t) {
                        record!(v);
                    }
                }
            }
            Event::Query { a, confs } => {
                if let Some(p) = probe.as_deref_mut() {
                    p.push(fw.w.get(*a).map(|s| M::fingerprint(&s.st)).unwrap_or_else(|| "<no such slot>".into()));
                }
                for v in query_checked::<M>(&fw, *a, confs, stats) {
                    record!(v);
                }
                if let Some(v) = c08_slot_check::<M>(&fw, *a, stats) {
                    record!(v);
                }
                // two tenants taking turns: the partner's answers are judged like any other
                // query (documented outcome, twin refinement), then both are asked in alternation
                if let (Some(b), Some(&c)) = (crate::oracle::alternation_partner::<M>(&fw.w, *a), confs.first()) {
                    for v in query_checked::<M>(&fw, b, &[c], stats) {
                        record!(v);
                    }
                    for v in query_checked::<M>(&fw, *a, &[c], stats) {
                        record!(v);
                    }
                    let probe_v = match (fw.w.get(*a), fw.w.get(b)) {
                        (Some(sa), Some(sb)) => crate::oracle::alternation_probe::<M>(&sa.st, &sb.st, c, true, (*a, b), stats),
                        _ => None,
                    };
                    if let Some(v) = probe_v {
                        record!(v);
                    }
                }
            }
            _ => {}
        }
        for s in fw.w.slots.iter().flatten() {
            let st = len_bucket(s.model.total() as u32) | ((s.model.poisoned as u32) << 8) | ((s.model.soft_poisoned as u32) << 9) | (((s.model.merges > 0) as u32) << 10);
            reach.states.insert(st);
        }
    }
    for i in fw.w.live() {
        if let Some(s) = fw.w.get(i) {
            reach.trees.push(s.model.tree);
            reach.records += s.model.total();
        }
        for v in query_checked::<M>(&fw, i, &final_confs, stats) {
            record!(v);
        }
        if let Some(v) = c08_slot_check::<M>(&fw, i, stats) {
            record!(v);
        }
    }
    // population doubling: a healthy state and its twin are merged with copies of themselves k
    // times (count = n * 2^k: beyond 2^24, 2^32 and 2^53 - populations that only nested merges
    // reach) and asked again. Doubling a population leaves the scale of the accumulation space and
    // the set of distinct records unchanged, so the twin refinement applies as it stands; the
    // count must be exactly n * 2^k. k is a function of the trace (slot number and count).
    if fw.has_twin {
        for i in fw.w.live() {
            for v in doubling_probe::<M>(&fw, i, &final_confs, stats) {
                record!(v);
            }
        }
    }
    // conf-major sweep: every live slot is asked the same question in turn (the slot-major loop
    // above never puts two states' identical questions next to each other)
    let live = fw.w.live();
    if live.len() >= 2 {
        for &c in &final_confs[..2] {
            for &i in &live {
                for v in query_checked::<M>(&fw, i, &[c], stats) {
                    record!(v);
                }
            }
        }
    }
    reach.shape = dg.0;
    (out, reach, fired)
}

/// C08 run, lock-step machines: the state's sum against the exact sum of the pairs it holds
fn c08_slot_check<M: Machine>(fw: &FWorld<M>, slot: u16, stats: &mut Stats) -> Option<Violation> {
    if !fw.c08_keyed || !M::LOCKSTEP {
        return None;
    }
    let s = fw.w.get(slot)?;
    if s.model.poisoned || s.model.soft_poisoned {
        return None;
    }
    let ts: Vec<(f64, f64)> = s.model.items[0].iter().zip(s.model.pair_b.iter()).map(|(&ia, &ib)| M::tspace(fw.w.tapes[0][ia as usize], fw.w.tapes[1][ib as usize])).collect();
    crate::oracle::c08_after_refusal::<M>(&s.st, &ts, slot, stats)
}

/// takes the next `len` records' indices from the tape(s), advancing the cursors (same rule as
/// `World::step(Deliver)`)
fn take_indices<M: Machine>(w: &mut World<M>, stream: usize, len: usize, style: u8) -> [Vec<u32>; 2] {
    let stream = stream % M::STREAMS.max(1);
    let dual = M::LOCKSTEP || (M::FAMILY == Family::Unpaired && unpaired_style_is_dual(style));
    let mut take = [0usize; 2];
    if dual {
        for k in 0..2 {
            take[k] = len.min(w.remaining(k));
        }
        if M::LOCKSTEP {
            let m = take[0].min(take[1]);
            take = [m, m];
        }
    } else {
        take[stream] = len.min(w.remaining(stream));
    }
    let idx = [
        (w.cursor[0]..w.cursor[0] + take[0]).map(|i| i as u32).collect(),
        (w.cursor[1]..w.cursor[1] + take[1]).map(|i| i as u32).collect(),
    ];
    w.cursor[0] += take[0];
    w.cursor[1] += take[1];
    idx
}

fn count_check<M: Machine>(fw: &FWorld<M>, slot: u16) -> Option<Violation> {
    let s = fw.w.get(slot)?;
    let o = M::observe(&s.st, ObsPlan { confs: &[], unguarded: false });
    let expect: Vec<u64> = match (M::FAMILY, M::name().as_str()) {
        (Family::Unpaired, _) => vec![s.model.count(0), s.model.count(1)],
        (Family::Count, "proportion::Stats") => {
            vec![s.model.count(0), s.model.items[0].iter().filter(|&&i| fw.w.tapes[0][i as usize] != 0).count() as u64]
        }
        (Family::Sum, _) => vec![],
        _ => vec![s.model.count(0)],
    };
    for (k, &e) in expect.iter().enumerate() {
        match obs_get(&o, What::Count(k as u8)) {
            Some(Val::U(g)) if *g == e => {}
            other => {
                return Some(Violation::new(
                    "C11",
                    &format!("{}/count-mismatch", M::name()),
                    slot,
                    format!("counter {k}: model {e}, state reports {:?}", other.map(|v| v.render())),
                ))
            }
        }
    }
    None
}

/// Delivers `idx` to slot `dst`, checks outcome and post-state against the prediction and
/// updates model and twin.
#[allow(clippy::too_many_arguments)]
fn deliver_checked<M: Machine>(fw: &mut FWorld<M>, dst: u16, stream: usize, style: u8, ctor: u8, idx: [Vec<u32>; 2], stats: &mut Stats, fault: Option<String>) -> Vec<Violation> {
    let mut viol = Vec::new();
    let name = M::name();
    // make sure the slot (and its twin) exist
    if fw.w.get(dst).is_none() {
        fw.w.put(dst, Slot { st: M::empty(ctor), model: Model::default() });
        if fw.has_twin {
            fw.tw.put(dst, Slot { st: <M::Twin as Machine>::empty(ctor), model: Model::default() });
        }
    }
    let recs: [Vec<Bits>; 2] = [
        idx[0].iter().map(|&i| fw.w.tapes[0][i as usize]).collect(),
        idx[1].iter().map(|&i| fw.w.tapes[1][i as usize]).collect(),
    ];
    let pre = fw.w.get(dst).unwrap().st.clone();
    if NEIGHBOUR.with(|n| n.get()) {
        neighbour_tenant(M::FLT, [&recs[0], &recs[1]]);
        stats.inc("deliveries_with_a_neighbour_tenant");
    }
    let out = {
        let slot = fw.w.slots[dst as usize].as_mut().unwrap();
        M::deliver(&mut slot.st, style, stream, [&recs[0], &recs[1]])
    };
    stats.inc("deliveries");
    let ctx = format!("{} style '{}' fault {:?} records a={:?} b={:?}", name, M::style_name(style), fault, recs[0].iter().map(|&b| dec::<M>(b)).collect::<Vec<_>>(), recs[1].iter().map(|&b| dec::<M>(b)).collect::<Vec<_>>());
    // ---- prediction: which records end up in the state, and what the call returns
    let transformed = is_ops::<M>() && M::TRANSFORM != Transform::Id;
    let mut accepted: [Vec<u32>; 2] = idx.clone();
    let mut alt_nothing = false; // post-state may also legitimately be the pre-state
    let mut expected_err: Option<Expect> = None;
    if transformed {
        if let Some(i) = recs[0].iter().position(|&b| dec::<M>(b) <= 0.0) {
            expected_err = Some(Expect::NonPositive(dec::<M>(recs[0][i])));
            if absorbs_prefix::<M>(style) {
                accepted[0].truncate(i);
                // an `extend` that is atomic (absorbs nothing when it fails) also "leaves the
                // accumulated state unchanged": accepted as an alternative for the styles that
                // hand the library more than one record per call
                alt_nothing = !matches!(style % 10, 0 | 7 | 8);
            } else {
                accepted[0].clear();
            }
        }
    }
    if M::LOCKSTEP {
        let (la, lb) = (idx[0].len(), idx[1].len());
        let common = la.min(lb);
        accepted[0].truncate(common);
        accepted[1].truncate(common);
        if la != lb {
            match style % 8 {
                1 | 2 => {
                    expected_err = Some(Expect::DifferentSizes(la, lb));
                    alt_nothing = true;
                }
                4 | 5 | 6 => {
                    expected_err = Some(Expect::DifferentSizes(la, lb));
                    accepted[0].clear();
                    accepted[1].clear();
                }
                _ => {} // zipping styles never show the library the mismatch
            }
        }
    }
    // ---- narrow relaxation: a NaN / infinite record may also be REJECTED at delivery (any error
    // variant) instead of being absorbed and reported by the next query; C11 only demands "the
    // documented error rather than a panic or a NaN interval", not where it is raised
    // (for the transformed machines this includes a finite record whose logarithm / reciprocal
    // is not finite in the element type; a non-positive record is the NonPositiveValue case)
    let nonfinite = |b: Bits| {
        if M::FLT == Flt::Int {
            return false;
        }
        let x = dec::<M>(b);
        if transformed {
            !(x <= 0.0) && (!x.is_finite() || !M::tspace(b, 0).0.is_finite() || !M::tspace(b, 0).1.is_finite())
        } else if M::STREAMS == 1 {
            // a finite record whose square is not finite in the element type is "huge" data: the
            // interval may answer with any error, and so may the delivery (validation at the door)
            !x.is_finite() || !M::tspace(b, 0).1.is_finite()
        } else {
            !x.is_finite()
        }
    };
    if let Out::Err(_) = &out {
        if is_ops::<M>() {
            let nf = recs[0].iter().position(|&b| nonfinite(b));
            let np = if transformed { recs[0].iter().position(|&b| dec::<M>(b) <= 0.0) } else { None };
            if let Some(i) = nf {
                if np.map_or(true, |p| i < p) {
                    expected_err = Some(Expect::AnyErr);
                    accepted = idx.clone();
                    if absorbs_prefix::<M>(style) {
                        accepted[0].truncate(i);
                        alt_nothing = !matches!(style % 10, 0 | 7 | 8);
                    } else {
                        accepted[0].clear();
                    }
                    stats.inc("nonfinite_record_rejected_at_delivery");
                }
            }
        } else if expected_err.is_none()
            && (recs[0].iter().chain(recs[1].iter()).any(|&b| nonfinite(b))
                || (M::LOCKSTEP && recs[0].iter().zip(recs[1].iter()).any(|(&a, &b)| !M::tspace(a, b).0.is_finite() || !M::tspace(a, b).1.is_finite()))
                || (!M::LOCKSTEP && M::FLT != Flt::Int && recs[0].iter().chain(recs[1].iter()).any(|&b| !M::tspace(b, b).1.is_finite() && M::FAMILY == Family::Unpaired)))
        {
            // two-stream machines: which records were absorbed before the rejection is the
            // library's business; the slot leaves the simulation
            fw.w.take(dst);
            if fw.has_twin {
                fw.tw.take(dst);
            }
            stats.inc("nonfinite_record_rejected_at_delivery.slot_dropped");
            return viol;
        }
    }
    // ---- outcome
    let pid_reject = if matches!(expected_err, Some(Expect::NonPositive(_))) { "C05" } else { "C11" };
    match (&expected_err, &out) {
        (None, Out::Ok(())) => {}
        (None, other) => viol.push(Violation::new(
            "C11",
            &format!("{name}/valid-records-rejected/{}", if other.is_panic() { "panic" } else { "error" }),
            dst,
            format!("{ctx}: returned {}", other.class()),
        )),
        (Some(x), Out::Err(e)) => {
            let ok = match (x, e) {
                (Expect::NonPositive(v), ErrV::NonPositiveValue(w)) => v.to_bits() == w.to_bits(),
                (Expect::DifferentSizes(a, b), ErrV::DifferentSampleSizes(c, d)) => a == c && b == d,
                (Expect::AnyErr, _) => true,
                _ => false,
            };
            if !ok {
                viol.push(Violation::new(
                    pid_reject,
                    &format!("{name}/{}/wrong-error", if pid_reject == "C05" { "non-positive-observation" } else { "unequal-paired-lengths" }),
                    dst,
                    format!("{ctx}: returned Err({}) but the documented outcome is {:?}", e.render(), x),
                ));
            } else {
                stats.inc(if pid_reject == "C05" { "rejections_checked" } else { "length_mismatches_checked" });
            }
        }
        (Some(x), other) => viol.push(Violation::new(
            pid_reject,
            &format!("{name}/{}/{}", if pid_reject == "C05" { "non-positive-observation" } else { "unequal-paired-lengths" }, if other.is_panic() { "panic" } else { "accepted" }),
            dst,
            format!("{ctx}: returned {} but the documented outcome is {:?}", other.class(), x),
        )),
    }
    // ---- post-state: clone of the pre-state fed exactly the accepted records in the same style
    let arecs: [Vec<Bits>; 2] = [
        accepted[0].iter().map(|&i| fw.w.tapes[0][i as usize]).collect(),
        accepted[1].iter().map(|&i| fw.w.tapes[1][i as usize]).collect(),
    ];
    let mut actual_accepted = accepted.clone();
    if expected_err.is_some() && !out.is_panic() {
        let mut exp_state = pre.clone();
        // nothing accepted: the expected post-state is the pre-state itself (re-running an empty
        // delivery would merge an empty partial, which the failed call never did)
        let r = if arecs[0].is_empty() && arecs[1].is_empty() { Out::Ok(()) } else { M::deliver(&mut exp_state, style, stream, [&arecs[0], &arecs[1]]) };
        let got_fp = M::fingerprint(&fw.w.get(dst).unwrap().st);
        let exp_fp = M::fingerprint(&exp_state);
        let pre_fp = M::fingerprint(&pre);
        stats.inc("post_rejection_state_checks");
        if r.is_ok() && got_fp == exp_fp {
            // as predicted
        } else if alt_nothing && got_fp == pre_fp {
            actual_accepted = [Vec::new(), Vec::new()];
        } else if fw.c08_keyed && {
            // not bit-identical to either prediction: the count says which observations the state
            // claims to hold; the C08 bound judges its sums at the next query
            let o = M::observe(&fw.w.get(dst).unwrap().st, ObsPlan { confs: &[], unguarded: false });
            let pre_n = fw.w.get(dst).unwrap().model.count(0);
            match obs_get(&o, What::Count(0)) {
                Some(Val::U(g)) if *g == pre_n + arecs[0].len() as u64 => true,
                Some(Val::U(g)) if *g == pre_n => {
                    actual_accepted = [Vec::new(), Vec::new()];
                    true
                }
                _ => false,
            }
        } {
            stats.inc("c08_post_refusal_state_differs_bitwise");
        } else {
            viol.push(Violation::new(
                if fw.c09_keyed { "C09" } else { pid_reject },
                &format!("{name}/rejected-delivery-changed-the-state"),
                dst,
                format!("{ctx}: after the rejected delivery the state is {got_fp}; a clone of the pre-state fed exactly the {} accepted record(s) is {exp_fp} (pre-state {pre_fp})", arecs[0].len() + arecs[1].len()),
            ));
        }
    }
    // ---- model + twin update
    let accepted = actual_accepted;
    {
        let slot = fw.w.slots[dst as usize].as_mut().unwrap();
        if M::LOCKSTEP {
            for j in 0..accepted[0].len() {
                let (ia, ib) = (accepted[0][j], accepted[1][j]);
                let (ra, rb) = (fw.w.tapes[0][ia as usize], fw.w.tapes[1][ib as usize]);
                slot.model.items[0].push(ia);
                slot.model.pair_b.push(ib);
                if !dec::<M>(ra).is_finite() || !dec::<M>(rb).is_finite() {
                    slot.model.poisoned = true;
                }
            }
        } else {
            for k in 0..2 {
                for &i in &accepted[k] {
                    let r = fw.w.tapes[k][i as usize];
                    slot.model.items[k].push(i);
                    if M::FLT != Flt::Int && !dec::<M>(r).is_finite() {
                        if M::TRANSFORM == Transform::Recip && dec::<M>(r) == f64::INFINITY {
                            slot.model.soft_poisoned = true;
                        } else {
                            slot.model.poisoned = true;
                        }
                    }
                }
            }
        }
        slot.model.tree = mix(slot.model.tree, "leaf", len_bucket((accepted[0].len() + accepted[1].len()) as u32) as u64);
    }
    if fw.has_twin {
        let trecs: Vec<Bits> = accepted[0].iter().map(|&i| fw.tw.tapes[0][i as usize]).collect();
        let tslot = fw.tw.slots[dst as usize].as_mut().unwrap();
        let _ = <M::Twin as Machine>::deliver(&mut tslot.st, style, 0, [&trecs, &[]]);
    }
    if let Some(v) = count_check::<M>(fw, dst) {
        viol.push(v);
    }
    viol
}

fn facts_for<M: Machine>(fw: &FWorld<M>, m: &Model, k: usize) -> (crate::cases::Facts, bool) {
    let recs = sorted_records(&fw.w, m);
    let ts: Vec<f64> = if M::LOCKSTEP {
        recs[0].iter().zip(recs[1].iter()).map(|(&a, &b)| M::tspace(a, b).0).collect()
    } else {
        recs[k].iter().map(|&a| M::tspace(a, 0).0).collect()
    };
    let raw_nf = if M::LOCKSTEP {
        recs[0].iter().chain(recs[1].iter()).any(|&b| !dec::<M>(b).is_finite())
    } else {
        recs[k].iter().any(|&b| !dec::<M>(b).is_finite())
    };
    let only_pos_inf = recs[k].iter().all(|&b| dec::<M>(b).is_finite() || dec::<M>(b) == f64::INFINITY);
    (facts_of(M::FLT, raw_nf, &ts), only_pos_inf)
}

/// C11 (and C05 twin) checks of one slot at a query.
fn query_checked<M: Machine>(fw: &FWorld<M>, slot: u16, confs: &[u8], stats: &mut Stats) -> Vec<Violation> {
    let mut viol = Vec::new();
    let Some(s) = fw.w.get(slot) else { return viol };
    let name = M::name();
    let plan = ObsPlan { confs, unguarded: true };
    let fp0 = M::fingerprint(&s.st);
    let o = M::observe(&s.st, plan);
    let o2 = M::observe(&s.st, plan);
    let fp1 = M::fingerprint(&s.st);
    stats.inc("fault_queries");
    if fp0 != fp1 {
        viol.push(Violation::new("C09", "query-modified-state", slot, format!("before {fp0} after {fp1}")));
    }
    // NaN != NaN at the f64 level but observations are compared by bits
    if o != o2 {
        viol.push(Violation::new("C09", "query-not-idempotent", slot, format!("{} repeated query differs", name)));
    }
    // ---- expectations from the model
    let expect: Vec<Expect> = match M::FAMILY {
        Family::Mean => {
            let (f, only_pos_inf) = facts_for::<M>(fw, &s.model, 0);
            let mut e = Vec::new();
            if f.n < 2 {
                e.push(Expect::TooFew(vec![f.n]));
            }
            if f.nonfinite && !(M::TRANSFORM == Transform::Recip && only_pos_inf) {
                e.push(Expect::InvalidInput);
            }
            e
        }
        Family::Unpaired => {
            let (fa, _) = facts_for::<M>(fw, &s.model, 0);
            let (fb, _) = facts_for::<M>(fw, &s.model, 1);
            let mut e = Vec::new();
            let few: Vec<usize> = [fa.n, fb.n].into_iter().filter(|&n| n < 2).collect();
            if !few.is_empty() {
                e.push(Expect::TooFew(few));
            }
            if fa.nonfinite || fb.nonfinite {
                e.push(Expect::InvalidInput);
            }
            e
        }
        Family::Count => {
            if name == "proportion::Stats" {
                let n = s.model.count(0) as usize;
                let k = s.model.items[0].iter().filter(|&&i| fw.w.tapes[0][i as usize] != 0).count();
                let mut e = Vec::new();
                if k < 2 {
                    e.push(Expect::TooFewSuccesses(k, n));
                }
                if n - k < 2 {
                    e.push(Expect::TooFewFailures(n - k, n));
                }
                e
            } else {
                let n = s.model.count(0) as usize;
                if n < 4 {
                    vec![Expect::TooFew(vec![n])]
                } else {
                    vec![]
                }
            }
        }
        Family::Sum => vec![],
    };
    let entry = format!("{}::{}", name, if name == "proportion::Stats" || name == "quantile::Stats" { "ci" } else { "ci_mean" });
    for (w, val) in &o {
        match (w, val) {
            (What::Ci(c), Val::Ci(out)) | (What::QCi(c, _), Val::Ci(out)) => {
                stats.inc("fault_ci_judged");
                let ctx = format!("{} after a history of {} deliveries/merges (n={:?}, poisoned={}) conf={}", name, s.model.merges, [s.model.count(0), s.model.count(1)], s.model.poisoned, conf_name(*c));
                if let Some(v) = judge_ci(&entry, out, &expect, false, &ctx) {
                    let mut v = v;
                    v.slot = slot;
                    if !viol.iter().any(|x: &Violation| x.key() == v.key()) {
                        viol.push(v);
                    }
                }
            }
            (What::Signif, Val::Panic(p)) => viol.push(Violation::new("C11", &format!("{name}::is_significant/valid-or-degenerate/panic"), slot, p.clone())),
            _ => {}
        }
    }
    // ---- C05: lock-step twin
    if fw.has_twin && !s.model.poisoned && !s.model.soft_poisoned && s.model.count(0) >= 2 {
        if let Some(t) = fw.tw.get(slot) {
            viol.extend(twin_check::<M>(fw, slot, s, &t.st, confs, stats));
        }
    }
    viol
}

/// see the call site: the slot and its twin merged with themselves k times, then the twin refinement
fn doubling_probe<M: Machine>(fw: &FWorld<M>, slot: u16, confs: &[u8], stats: &mut Stats) -> Vec<Violation> {
    let mut viol = Vec::new();
    let (Some(s), Some(t)) = (fw.w.get(slot), fw.tw.get(slot)) else { return viol };
    let n = s.model.count(0);
    if s.model.poisoned || s.model.soft_poisoned || n < 2 || n > 4096 || M::STREAMS != 1 {
        return viol;
    }
    let k = [3u32, 17, 23, 24, 25, 31, 32, 33, 40, 47][((slot as u64 + n) % 10) as usize];
    let op = (n % 3) as u8;
    let mut st = s.st.clone();
    let mut tw = t.st.clone();
    for _ in 0..k {
        let (a, b) = (st.clone(), st.clone());
        let (ta, tb) = (tw.clone(), tw.clone());
        let merged = guard(|| (M::merge(a, b, op), <M::Twin as Machine>::merge(ta, tb, op)));
        match merged {
            Ok((x, y)) => {
                st = x;
                tw = y;
            }
            Err(p) => {
                viol.push(Violation::new("C05", &format!("{}/merge-of-a-state-with-its-copy/panic", M::name()), slot, p));
                return viol;
            }
        }
    }
    // ... and once more with the state itself (2^k + 1 copies: a count that is not a multiple of a
    // large power of two)
    {
        let (a, b) = (st.clone(), s.st.clone());
        let (ta, tb) = (tw.clone(), t.st.clone());
        match guard(|| (M::merge(a, b, op + 1), <M::Twin as Machine>::merge(ta, tb, op + 1))) {
            Ok((x, y)) => {
                st = x;
                tw = y;
            }
            Err(p) => {
                viol.push(Violation::new("C05", &format!("{}/merge-of-a-state-with-its-copy/panic", M::name()), slot, p));
                return viol;
            }
        }
    }
    stats.inc("c05_population_doubling_probes");
    let want = n * ((1u64 << k) + 1);
    let o = M::observe(&st, ObsPlan { confs: &[], unguarded: false });
    match obs_get(&o, What::Count(0)) {
        Some(Val::U(g)) if *g == want => {}
        other => {
            viol.push(Violation::new("C05", &format!("{}/count-mismatch-after-self-merges", M::name()), slot, format!("2^{k} + 1 copies of {n} observations (self-merges): the state reports {:?}, expected {want}", other.map(|v| v.render()))));
            return viol;
        }
    }
    let tmp = Slot::<M> { st, model: s.model.clone() };
    for mut v in twin_check::<M>(fw, slot, &tmp, &tw, confs, stats) {
        if v.invariant.contains("harmonic<=geometric<=arithmetic") {
            continue;
        }
        v.invariant = format!("{}-after-self-merges", v.invariant);
        v.detail = format!("2^{k} + 1 copies of {n} observations (self-merges, count {want}): {}", v.detail);
        viol.push(v);
    }
    viol
}

/// C05 refinement: geometric = exp(arithmetic over ln x), harmonic = 1/(arithmetic over 1/x)
/// with flipped confidence and exchanged ends.
fn twin_check<M: Machine>(fw: &FWorld<M>, slot: u16, s: &Slot<M>, twin: &<M::Twin as Machine>::S, confs: &[u8], stats: &mut Stats) -> Vec<Violation> {
    let mut viol = Vec::new();
    let name = M::name();
    let u = M::unit_roundoff();
    let tr = M::TRANSFORM;
    // confidences the twin must answer: the same ones for Ln, the flipped ones for Recip
    let flip = |c: u8| match c % 3 {
        1 => c + 1,
        2 => c - 1,
        _ => c,
    };
    let tconfs: Vec<u8> = confs.iter().map(|&c| if tr == Transform::Recip { flip(c) } else { c }).collect();
    let o = M::observe(&s.st, ObsPlan { confs, unguarded: false });
    let ot = <M::Twin as Machine>::observe(twin, ObsPlan { confs: &tconfs, unguarded: false });
    let getf = |o: &Obs, w: What| obs_get(o, w).and_then(|v| v.as_f());
    let (Some(m), Some(mt)) = (getf(&o, What::Mean(0)), getf(&ot, What::Mean(0))) else { return viol };
    // scale of the accumulation space: mean |t| (not |mean t|, so that an equally valid
    // re-association of the log-sum is not an alarm)
    let recs = sorted_records(&fw.w, &s.model);
    let n = recs[0].len() as f64;
    let mean_abs_t: f64 = recs[0].iter().map(|&b| M::tspace(b, 0).0.abs()).sum::<f64>() / n;
    if !mean_abs_t.is_finite() || !mt.is_finite() || mt == 0.0 {
        return viol;
    }
    stats.inc("c05_twin_checks");
    // back-transform, rounded to the element type (so that overflow to inf / underflow to 0 of
    // an f32 result is reproduced)
    let to_f = |x: f64| match M::FLT {
        Flt::F32 => (x as f32) as f64,
        _ => x,
    };
    let back = |t: f64| match tr {
        Transform::Ln => to_f(t.exp()),
        _ => to_f(1.0 / t),
    };
    let (fmax, eta) = match M::FLT {
        Flt::F32 => (f32::MAX as f64, f32::from_bits(1) as f64),
        _ => (f64::MAX, f64::from_bits(1)),
    };
    // results within a factor (1 +- edge) of the overflow threshold or below the normal range
    // are at the mercy of the last rounding: only their order of magnitude is compared
    let at_edge = |x: f64| !(x.abs() < fmax / 2.0) || x.abs() < eta * 1e9;
    // relative tolerance in the reported space for a perturbation dt of the accumulation-space value t
    let rel = |dt: f64, t: f64| match tr {
        Transform::Ln => dt,
        _ => dt / t.abs(),
    };
    let base = 16.0 * u * (1.0 + mean_abs_t);
    // sample_mean
    {
        let want = back(mt);
        let tol = want.abs() * (rel(base, mt) + 8.0 * u);
        let d = (m - want).abs();
        if at_edge(want) {
            stats.inc("c05_range_edge_skipped");
        } else {
            stats.worst("c05_mean_vs_twin", if d == 0.0 { 0.0 } else { d / tol });
        }
        if !(d <= tol) && !at_edge(want) {
            viol.push(Violation::new("C05", &format!("{name}/sample_mean-not-back-transformed-arithmetic-mean"), slot, format!("sample_mean {:?}, back-transform of the twin's mean {:?} is {:?}", m, mt, want)));
        }
    }
    // sample_sem = G * se(ln x)  resp.  H^2 * se(1/x)
    if let (Some(e), Some(et)) = (getf(&o, What::Sem(0)), getf(&ot, What::Sem(0))) {
        // the documented transform, evaluated in the element type: H^2 is formed first, so for
        // H above sqrt(MAX) it overflows to inf exactly as the documented formula does
        let jac = match tr {
            Transform::Ln => m,
            _ => to_f(m * m),
        };
        let want = to_f(jac * et);
        if want.to_bits() == e.to_bits() {
            // includes inf == inf at the edge of the range
        } else
        if want.is_finite() && et.is_finite() && !at_edge(want) {
            let tol = want.abs() * (2.0 * rel(base, mt) + 16.0 * u) + f64::MIN_POSITIVE;
            let d = (e - want).abs();
            stats.worst("c05_sem_vs_twin", if d == 0.0 { 0.0 } else { d / tol });
            if !(d <= tol) {
                viol.push(Violation::new("C05", &format!("{name}/sample_sem-not-documented-transform"), slot, format!("sample_sem {:?}, documented transform of the twin's standard error {:?} is {:?}", e, et, want)));
            }
        }
    }
    // ci_mean
    for (&c, &ct) in confs.iter().zip(tconfs.iter()) {
        let (Some(Val::Ci(r)), Some(Val::Ci(rt))) = (obs_get(&o, What::Ci(c)), obs_get(&ot, What::Ci(ct))) else { continue };
        let Out::Ok(it) = rt else { continue };
        // expected interval in the reported space
        let (want_kind, want_lo, want_hi, used_lo, used_hi) = match tr {
            Transform::Ln => (it.kind, back(it.lo), back(it.hi), it.lo, it.hi),
            _ => {
                // ends exchanged, kind flipped back
                let k = match it.kind {
                    1 => 2,
                    2 => 1,
                    x => x,
                };
                (k, if it.hi.is_infinite() { f64::NEG_INFINITY } else { 1.0 / it.hi }, if it.lo.is_infinite() { f64::INFINITY } else { 1.0 / it.lo }, it.hi, it.lo)
            }
        };
        if tr == Transform::Recip {
            // "whenever that reciprocal-space bound is strictly positive": every finite
            // reciprocal-space bound that is used must be > 0, with a margin for rounding
            let margin = base * 4.0 * mt.abs().max(mean_abs_t);
            let bad = |b: f64| b.is_finite() && !(b > margin);
            if bad(it.lo) || bad(it.hi) {
                stats.inc("c05_harmonic_straddle_skipped");
                continue;
            }
        }
        stats.inc("c05_ci_twin_checks");
        match r {
            Out::Ok(i) => {
                if i.kind != want_kind {
                    viol.push(Violation::new("C05", &format!("{name}/ci-kind-differs-from-back-transformed-arithmetic-ci"), slot, format!("{}: got {} but the twin's interval {} back-transforms to kind {}", conf_name(c), i.render(), it.render(), want_kind)));
                    continue;
                }
                for (got, want, used, which) in [(i.lo, want_lo, used_lo, "low"), (i.hi, want_hi, used_hi, "high")] {
                    if got.to_bits() == want.to_bits() || (got.is_infinite() && want.is_infinite() && got == want) {
                        continue;
                    }
                    // only the EXPECTED value decides whether we are at the edge of the range: an
                    // infinite or zero bound where the twin predicts a mid-range one is a mismatch
                    if at_edge(want) {
                        stats.inc("c05_range_edge_skipped");
                        continue;
                    }
                    if !want.is_finite() || !got.is_finite() {
                        // `want` is not at the edge of the range here, so it is finite: an
                        // infinite or NaN bound in its place is a mismatch
                        if want.is_finite() != got.is_finite() {
                            viol.push(Violation::new("C05", &format!("{name}/ci-not-back-transformed-arithmetic-ci"), slot, format!("{} {which}: got {:?}, expected {:?}", conf_name(c), got, want)));
                        }
                        continue;
                    }
                    let span = (used - mt).abs();
                    let dt = base + 16.0 * u * span;
                    let tol = want.abs() * (rel(dt, used) + 8.0 * u) + f64::MIN_POSITIVE;
                    let d = (got - want).abs();
                    stats.worst("c05_ci_vs_twin", d / tol);
                    if !(d <= tol) {
                        viol.push(Violation::new(
                            "C05",
                            &format!("{name}/ci-not-back-transformed-arithmetic-ci"),
                            slot,
                            format!("{} {which} bound: got {:?}, but the twin's {} interval {} back-transforms to {:?} (|diff| {:e} > tol {:e})", conf_name(c), got, conf_name(ct), it.render(), want, d, tol),
                        ));
                    }
                }
            }
            other => {
                viol.push(Violation::new("C05", &format!("{name}/ci-fails-where-arithmetic-ci-succeeds"), slot, format!("{}: {} while the twin answers {}", conf_name(c), other.class(), it.render())));
            }
        }
    }
    // H <= G <= A on the same multiset (one-shot states; tolerance = rounding of the means)
    if s.model.count(0) >= 1 {
        if let Some(v) = hga_check::<M>(slot, &recs[0], stats) {
            viol.push(v);
        }
    }
    viol
}

fn hga_check<M: Machine>(slot: u16, recs: &[Bits], stats: &mut Stats) -> Option<Violation> {
    use stats_ci::mean::{Arithmetic, Geometric, Harmonic, StatisticsOps};
    fn means<F: Fl>(recs: &[Bits]) -> Option<(f64, f64, f64, f64)> {
        let xs: Vec<F> = recs.iter().map(|&b| F::from_bits64(b)).collect();
        let a = Arithmetic::<F>::from_iter(&xs).ok()?.sample_mean().w();
        let g = Geometric::<F>::from_iter(&xs).ok()?.sample_mean().w();
        let h = Harmonic::<F>::from_iter(&xs).ok()?.sample_mean().w();
        // mean |ln x| bounds the relative rounding error of G; 1 that of A and H
        let l: f64 = xs.iter().map(|x| x.w().ln().abs()).sum::<f64>() / xs.len() as f64;
        Some((a, g, h, l))
    }
    let r = match M::FLT {
        Flt::F32 => means::<f32>(recs),
        Flt::F64 => means::<f64>(recs),
        Flt::Int => None,
    }?;
    let (a, g, h, l) = r;
    if !(a.is_finite() && g.is_finite() && h.is_finite() && h > 0.0) {
        return None;
    }
    let u = M::unit_roundoff();
    let tol = 32.0 * u * (1.0 + l);
    stats.inc("c05_hga_checks");
    if h > g * (1.0 + tol) || g > a * (1.0 + tol) {
        return Some(Violation::new("C05", "harmonic<=geometric<=arithmetic", slot, format!("H={:?} G={:?} A={:?} on the same {} records", h, g, a, recs.len())));
    }
    None
}

// ------------------------------------------------------------------------------------------
// generation
// ------------------------------------------------------------------------------------------

#[derive(Clone, Copy, Debug, PartialEq, Eq)]
pub enum Mode {
    /// C11: every fault kind, every machine
    Totality,
    /// C05: only non-positive corruption (plus early EOF) on Geometric / Harmonic
    NonPositive,
}

/// Seeded fault history. Most deliveries are clean; fault rate and enabled fault kinds are
/// swarm knobs, so that most runs make real progress between faults.
pub fn generate<M: Machine>(property: &str, verif_seed: u64, run: u64, mode: Mode) -> Trace {
    let tag = format!("{property}/fault/{}", M::name());
    let mut r = Rng::new(mix(verif_seed, &tag, run));
    let flt = M::FLT;
    let positive = matches!(M::TRANSFORM, Transform::Ln | Transform::Recip);
    // most tapes are short (few records make most bugs); one run in ten has long deliveries
    // (hundreds of records per call, so that block-wise accumulation inside a call matters)
    let big_chunks = r.chance(0.1);
    let max_len = if big_chunks { 700 } else { *r.pick(&[4usize, 8, 16, 64]) };
    let len0 = r.usize_in(0, max_len);
    let len1 = if M::STREAMS == 2 { if M::LOCKSTEP { len0 } else { r.usize_in(0, max_len) } } else { 0 };
    let fams: [u8; 6] = [0, 2, 3, 5, 7, FAM_POW2];
    let family = if flt == Flt::Int { r.below(10) as u8 } else { *r.pick(&fams) };
    // "wide dynamic range": a third of the runs live far away from 1 (the squares of the records
    // and of their reciprocals still fit the element type)
    let wide = match flt {
        Flt::F32 => 40,
        _ => 300,
    };
    let scale_exp = if flt == Flt::Int {
        0
    } else if r.chance(0.33) {
        r.range(-wide, wide) as i32
    } else {
        r.range(-8, 8) as i32
    };
    let tapes = [
        TapeSpec::Gen { family, seed: r.next_u64(), len: len0 as u32, flt, positive, scale_exp },
        TapeSpec::Gen { family: *r.pick(&fams), seed: r.next_u64(), len: len1 as u32, flt, positive, scale_exp },
    ];
    let payloads = match mode {
        Mode::Totality => corrupt_payloads(flt),
        Mode::NonPositive => nonpositive_payloads(flt),
    };
    let fault_rate = *r.pick(&[0.05, 0.15, 0.3, 0.6]);
    // swarm: enabled fault kinds
    let mut kinds: Vec<u8> = Vec::new();
    if flt != Flt::Int {
        kinds.push(FK_CORRUPT);
    }
    if r.chance(0.6) {
        kinds.push(FK_TRUNCATE);
    }
    if mode == Mode::Totality {
        if r.chance(0.5) {
            kinds.push(FK_DROP);
        }
        if r.chance(0.5) {
            kinds.push(FK_DUP);
        }
    }
    if kinds.is_empty() {
        kinds.push(FK_TRUNCATE);
    }
    let n_workers = r.usize_in(1, 4) as u16;
    let styles: Vec<u8> = (0..M::N_STYLES).filter(|_| r.chance(0.6)).collect();
    let styles = if styles.is_empty() { vec![r.below(M::N_STYLES as u64) as u8] } else { styles };
    let mut tr = Trace {
        property: property.to_string(),
        config: "fault".into(),
        machine: M::name(),
        verif_seed,
        run_index: run,
        exact_data: false,
        isolated: run % 64 == 0,
        tapes,
        events: Vec::new(),
        knobs: json!({"fault_rate": fault_rate, "fault_kinds": kinds, "workers": n_workers, "mode": format!("{:?}", mode)}),
        violation: None,
        extra: Value::Null,
    };
    let mut remaining = [len0, len1];
    let mut live: Vec<u16> = Vec::new();
    let mut next_slot = n_workers;
    let mut steps = 0;
    while (remaining[0] > 0 || remaining[1] > 0) && steps < 400 {
        steps += 1;
        let choice = r.weighted(&[8, if live.len() >= 2 { 2 } else { 0 }, if live.is_empty() { 0 } else { 1 }, if live.is_empty() { 0 } else { 1 }, if live.is_empty() { 0 } else { 3 }]);
        match choice {
            0 => {
                let stream = if M::STREAMS == 2 && !M::LOCKSTEP {
                    if remaining[0] == 0 {
                        1
                    } else if remaining[1] == 0 {
                        0
                    } else {
                        r.below(2) as usize
                    }
                } else {
                    0
                };
                let len = if big_chunks { r.usize_in(100, 400) as u32 } else { r.usize_in(0, 6) as u32 };
                let style = *r.pick(&styles);
                let dst = r.below(n_workers as u64) as u16;
                let dual = M::LOCKSTEP || (M::FAMILY == Family::Unpaired && unpaired_style_is_dual(style));
                if dual {
                    let t0 = (len as usize).min(remaining[0]);
                    let t1 = (len as usize).min(remaining[1]);
                    let (t0, t1) = if M::LOCKSTEP { (t0.min(t1), t0.min(t1)) } else { (t0, t1) };
                    remaining[0] -= t0;
                    remaining[1] -= t1;
                } else {
                    let t = (len as usize).min(remaining[stream]);
                    remaining[stream] -= t;
                }
                if !live.contains(&dst) {
                    live.push(dst);
                }
                if r.chance(fault_rate) {
                    let kind = *r.pick(&kinds);
                    let (_, payload) = *r.pick(&payloads);
                    let fstream = if M::LOCKSTEP { r.below(2) as u8 } else { stream as u8 };
                    tr.events.push(Event::Fault { dst, stream: fstream, len, style, kind, pos: if big_chunks { r.below(400) as u32 } else { r.below(8) as u32 }, payload });
                } else {
                    tr.events.push(Event::Deliver { dst, stream: stream as u8, len, style, ctor: r.below(M::N_EMPTY as u64) as u8 });
                }
            }
            1 => {
                let i = r.below(live.len() as u64) as usize;
                let mut j = r.below(live.len() as u64 - 1) as usize;
                if j >= i {
                    j += 1;
                }
                let (a, b) = (live[i], live[j]);
                let dst = if r.chance(0.7) { a } else { let d = next_slot; next_slot += 1; d };
                live.retain(|&s| s != a && s != b);
                live.push(dst);
                tr.events.push(Event::Merge { a, b, op: r.below(M::N_MERGE as u64) as u8, dst });
            }
            2 => {
                let a = live[r.below(live.len() as u64) as usize];
                tr.events.push(Event::MergeEmpty { a, side: r.below(2) as u8, op: r.below(3) as u8, ctor: r.below(M::N_EMPTY as u64) as u8 });
            }
            3 => {
                if live.len() < 8 {
                    let a = live[r.below(live.len() as u64) as usize];
                    let dst = next_slot;
                    next_slot += 1;
                    live.push(dst);
                    tr.events.push(Event::Fork { a, dst, how: r.below(2) as u8 });
                }
            }
            _ => {
                let a = live[r.below(live.len() as u64) as usize];
                tr.events.push(Event::Query { a, confs: crate::free::draw_confs(&mut r) });
            }
        }
    }
    // fold everything into one slot (poisoned operands meet healthy ones here), then query
    live.sort_unstable();
    while live.len() > 1 {
        let a = live[0];
        let b = live.remove(1);
        tr.events.push(Event::Merge { a, b, op: r.below(M::N_MERGE as u64) as u8, dst: a });
    }
    if let Some(&a) = live.first() {
        tr.events.push(Event::Query { a, confs: crate::free::draw_confs(&mut r) });
    }
    tr
}

/// A long stream (60 000 .. 250 000 records, so that the count may cross the 100 000 boundary
/// where the normal quantile replaces Student-t) carrying ONE corrupt record at the first, a
/// middle or the last position, delivered in a few large chunks, then queried.
pub fn generate_long_fault<M: Machine>(property: &str, verif_seed: u64, run: u64) -> Trace {
    let tag = format!("{property}/fault-long/{}", M::name());
    let mut r = Rng::new(mix(verif_seed, &tag, run));
    let flt = M::FLT;
    let positive = matches!(M::TRANSFORM, Transform::Ln | Transform::Recip);
    let n = r.usize_in(60_000, 250_000) as u32;
    let family = if flt == Flt::Int { r.below(10) as u8 } else { *r.pick(&[0u8, 2, 3, 7]) };
    let scale_exp = if flt == Flt::Int { 0 } else { r.range(-8, 8) as i32 };
    let tapes = [
        TapeSpec::Gen { family, seed: r.next_u64(), len: n, flt, positive, scale_exp },
        TapeSpec::Gen { family: 0, seed: r.next_u64(), len: if M::STREAMS == 2 { n } else { 0 }, flt, positive, scale_exp },
    ];
    let payloads = corrupt_payloads(flt);
    let (_, payload) = *r.pick(&payloads);
    let chunks = r.usize_in(1, 4) as u32;
    let base = n / chunks;
    let bad_chunk = r.below(chunks as u64) as u32;
    let mut events = Vec::new();
    let styles: Vec<u8> = if M::FAMILY == Family::Unpaired { vec![6, 7, 9] } else { (0..M::N_STYLES).collect() };
    for c in 0..chunks {
        let len = if c + 1 == chunks { n - base * (chunks - 1) } else { base };
        let style = *r.pick(&styles);
        if c == bad_chunk && flt != Flt::Int {
            let pos = match r.below(3) {
                0 => 0,
                1 => len / 2,
                _ => len - 1,
            };
            events.push(Event::Fault { dst: 0, stream: r.below(M::STREAMS.max(1) as u64) as u8, len, style, kind: FK_CORRUPT, pos, payload });
        } else if c == bad_chunk {
            events.push(Event::Fault { dst: 0, stream: 0, len, style, kind: FK_TRUNCATE, pos: r.below(3) as u32, payload: 0 });
        } else {
            events.push(Event::Deliver { dst: 0, stream: 0, len, style, ctor: 0 });
        }
        if r.chance(0.5) {
            events.push(Event::Query { a: 0, confs: vec![18, 1, 29] });
        }
    }
    events.push(Event::Query { a: 0, confs: vec![18, 19, 20] });
    Trace {
        property: property.to_string(),
        config: "fault".into(),
        machine: M::name(),
        verif_seed,
        run_index: run,
        exact_data: false,
        isolated: false,
        tapes,
        events,
        knobs: json!({"long": true, "n": n, "chunks": chunks, "payload": payload_name(flt, payload)}),
        violation: None,
        extra: Value::Null,
    }
}

/// C05 exhaustive small scope: for every tape length <= max_len, every position, every
/// non-positive payload, every delivery style, the whole tape is delivered in one faulty
/// delivery (after `pre` clean records were delivered first), followed by a clean delivery of the
/// remaining records and a query. `bg_seed` selects the valid background values.
pub fn enumerate_nonpositive<M: Machine>(bg_seed: u64, max_len: usize) -> Vec<Trace> {
    let flt = M::FLT;
    let mut out = Vec::new();
    let mut k = 0u64;
    for len in 1..=max_len {
        for pos in 0..len {
            for (pname, payload) in nonpositive_payloads(flt) {
                for style in 0..M::N_STYLES {
                    for pre in [0usize, 2] {
                        k += 1;
                        let total = pre + len + 2;
                        // backgrounds cycle through small, ordinary and large magnitudes
                        let wide = if flt == Flt::F32 { 40 } else { 300 };
                        let scale_exp = [0, wide, -wide, 7, -7][(k % 5) as usize];
                        let tapes = [
                            TapeSpec::Gen { family: 0, seed: mix(bg_seed, "c05bg", k), len: total as u32, flt, positive: true, scale_exp },
                            TapeSpec::Explicit(vec![]),
                        ];
                        let mut events = Vec::new();
                        if pre > 0 {
                            events.push(Event::Deliver { dst: 0, stream: 0, len: pre as u32, style: 0, ctor: 0 });
                        }
                        events.push(Event::Fault { dst: 0, stream: 0, len: len as u32, style, kind: FK_CORRUPT, pos: pos as u32, payload });
                        events.push(Event::Query { a: 0, confs: vec![18, 19, 20] });
                        events.push(Event::Deliver { dst: 0, stream: 0, len: 2, style: 1, ctor: 0 });
                        events.push(Event::Query { a: 0, confs: vec![0, 28, 11] });
                        out.push(Trace {
                            property: "C05".into(),
                            config: "fault".into(),
                            machine: M::name(),
                            verif_seed: bg_seed,
                            run_index: k,
                            exact_data: false,
                            isolated: false,
                            tapes,
                            events,
                            knobs: json!({"enumerated": {"len": len, "pos": pos, "payload": pname, "style": M::style_name(style), "pre": pre}}),
                            violation: None,
                            extra: Value::Null,
                        });
                    }
                }
            }
        }
    }
    out
}
