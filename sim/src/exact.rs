//! Exact reference arithmetic (the trusted base of the C08/C09 oracles).
//!
//! Every finite f64 (and therefore every f32) is an integer multiple of 2^-1074, so sums of
//! floats are computed *exactly* in a fixed-point super-accumulator and converted to a
//! `BigInt` (unit 2^-1074) only when an oracle needs them.

use num_bigint::{BigInt, Sign};
use num_traits::{Signed, ToPrimitive, Zero};

pub const SCALE: i64 = 1074; // all big integers below are in units of 2^-SCALE

const LIMBS: usize = 68; // 68*32 = 2176 bits >= 1074 + 1024 + headroom for 2^31 additions

/// Exact accumulator of f64 values. Limbs are base 2^32 digits held in i64 so that carries can be
/// deferred; `normalize` is called often enough that no limb can overflow.
#[derive(Clone)]
pub struct SuperAcc {
    limbs: [i64; LIMBS],
    pending: u32,
}

impl Default for SuperAcc {
    fn default() -> Self {
        SuperAcc {
            limbs: [0; LIMBS],
            pending: 0,
        }
    }
}

impl SuperAcc {
    pub fn new() -> Self {
        Self::default()
    }

    /// add a finite f64 exactly (panics on NaN/inf: the exact model only ever sees finite data)
    #[inline]
    pub fn add(&mut self, x: f64) {
        assert!(x.is_finite(), "exact model fed a non-finite value");
        if x == 0.0 {
            return;
        }
        let bits = x.to_bits();
        let neg = (bits >> 63) != 0;
        let e = ((bits >> 52) & 0x7ff) as i64;
        let frac = bits & ((1u64 << 52) - 1);
        let (mant, pos) = if e == 0 {
            (frac, 0i64)
        } else {
            (frac | (1u64 << 52), e - 1)
        };
        // value = mant * 2^(pos) in units of 2^-1074
        let limb = (pos / 32) as usize;
        let off = (pos % 32) as u32;
        let wide = (mant as u128) << off; // < 2^85
        let parts = [
            (wide & 0xffff_ffff) as i64,
            ((wide >> 32) & 0xffff_ffff) as i64,
            ((wide >> 64) & 0xffff_ffff) as i64,
        ];
        if neg {
            self.limbs[limb] -= parts[0];
            self.limbs[limb + 1] -= parts[1];
            self.limbs[limb + 2] -= parts[2];
        } else {
            self.limbs[limb] += parts[0];
            self.limbs[limb + 1] += parts[1];
            self.limbs[limb + 2] += parts[2];
        }
        self.pending += 1;
        if self.pending >= (1 << 29) {
            self.normalize();
        }
    }

    pub fn add_abs(&mut self, x: f64) {
        self.add(x.abs())
    }

    fn normalize(&mut self) {
        let mut carry: i64 = 0;
        for l in self.limbs.iter_mut() {
            let v = *l + carry;
            let low = v & 0xffff_ffff;
            carry = (v - low) >> 32;
            *l = low;
        }
        // top carry is folded back into the top limb (sign information lives there)
        let top = LIMBS - 1;
        self.limbs[top] += carry << 32;
        self.pending = 1;
    }

    pub fn merge(&mut self, other: &SuperAcc) {
        self.normalize();
        let mut o = other.clone();
        o.normalize();
        for i in 0..LIMBS {
            self.limbs[i] += o.limbs[i];
        }
        self.pending = 2;
    }

    /// exact value in units of 2^-1074
    pub fn to_big(&self) -> BigInt {
        let mut acc = BigInt::zero();
        for i in (0..LIMBS).rev() {
            acc <<= 32usize;
            acc += BigInt::from(self.limbs[i]);
        }
        acc
    }
}

/// exact integer (units of 2^-1074) of a finite f64
pub fn f64_to_big(x: f64) -> BigInt {
    assert!(x.is_finite());
    if x == 0.0 {
        return BigInt::zero();
    }
    let bits = x.to_bits();
    let neg = (bits >> 63) != 0;
    let e = ((bits >> 52) & 0x7ff) as i64;
    let frac = bits & ((1u64 << 52) - 1);
    let (mant, pos) = if e == 0 {
        (frac, 0i64)
    } else {
        (frac | (1u64 << 52), e - 1)
    };
    let b = BigInt::from(mant) << (pos as usize);
    if neg {
        -b
    } else {
        b
    }
}

pub fn f64_to_big_checked(x: f64) -> Option<BigInt> {
    if x.is_finite() {
        Some(f64_to_big(x))
    } else {
        None
    }
}

/// |b| * 2^scale2 rounded (truncated to 64 significant bits first) to f64, with sign.
pub fn big_to_f64(b: &BigInt, scale2: i64) -> f64 {
    if b.is_zero() {
        return 0.0;
    }
    let mag = b.magnitude();
    let bits = mag.bits() as i64;
    let (top, shift) = if bits > 64 {
        let sh = bits - 64;
        ((mag >> (sh as usize)).to_u64().unwrap(), sh)
    } else {
        (mag.to_u64().unwrap(), 0)
    };
    let v = ldexp(top as f64, shift + scale2);
    if b.sign() == Sign::Minus {
        -v
    } else {
        v
    }
}

/// value of a big integer in units of 2^-1074 as f64
pub fn big_val(b: &BigInt) -> f64 {
    big_to_f64(b, -SCALE)
}

pub fn ldexp(x: f64, e: i64) -> f64 {
    // two-step scaling to stay correct through the subnormal range and avoid premature overflow
    let mut x = x;
    let mut e = e;
    while e > 1000 {
        x *= 2f64.powi(1000);
        e -= 1000;
        if !x.is_finite() {
            return x;
        }
    }
    while e < -1000 {
        x *= 2f64.powi(-1000);
        e += 1000;
        if x == 0.0 {
            return x;
        }
    }
    x * 2f64.powi(e as i32)
}

/// num/den as f64 (both arbitrary big integers, den != 0), accurate to ~2^-60 relative
pub fn ratio(num: &BigInt, den: &BigInt) -> f64 {
    ratio_scaled(num, den, 0)
}

/// (num/den) * 2^scale2 as f64 without intermediate overflow
pub fn ratio_scaled(num: &BigInt, den: &BigInt, scale2: i64) -> f64 {
    assert!(!den.is_zero());
    if num.is_zero() {
        return 0.0;
    }
    let nb = num.magnitude().bits() as i64;
    let db = den.magnitude().bits() as i64;
    // shift numerator so that the quotient has ~64 bits
    let sh = 64 - (nb - db);
    let q = if sh >= 0 {
        (num.abs() << (sh as usize)) / den.abs()
    } else {
        (num.abs() >> ((-sh) as usize)) / den.abs()
    };
    let v = big_to_f64(&q, -sh + scale2);
    if (num.sign() == Sign::Minus) != (den.sign() == Sign::Minus) {
        -v
    } else {
        v
    }
}

/// Exact aggregates of a multiset of finite values in some space: n, S = sum x, A = sum |x|,
/// Q = sum sq where `sq` is supplied by the caller (the float-rounded square in the element type).
#[derive(Clone, Default)]
pub struct Agg {
    pub n: u64,
    pub s: SuperAcc,
    pub a: SuperAcc,
    pub q: SuperAcc,
}

impl Agg {
    pub fn new() -> Self {
        Self::default()
    }
    #[inline]
    pub fn push(&mut self, x: f64, sq: f64) {
        self.n += 1;
        self.s.add(x);
        self.a.add(x.abs());
        self.q.add(sq);
    }
    pub fn merge(&mut self, o: &Agg) {
        self.n += o.n;
        self.s.merge(&o.s);
        self.a.merge(&o.a);
        self.q.merge(&o.q);
    }
    pub fn summary(&self) -> AggSummary {
        let s = self.s.to_big();
        let a = self.a.to_big();
        let q = self.q.to_big();
        let n = self.n;
        let (mean, var) = if n == 0 {
            (f64::NAN, f64::NAN)
        } else {
            let nb = BigInt::from(n);
            let mean = ratio_scaled(&s, &nb, -SCALE);
            let var = if n >= 2 {
                // ((n*Q) - S^2) / (n (n-1)); Q is in units 2^-1074, S^2 in units 2^-2148
                let num = (&nb * &q << (SCALE as usize)) - &s * &s;
                let den = &nb * BigInt::from(n - 1);
                ratio_scaled(&num, &den, -2 * SCALE)
            } else {
                f64::NAN
            };
            (mean, var)
        };
        AggSummary {
            n,
            s_f: big_val(&s),
            a_f: big_val(&a),
            q_f: big_val(&q),
            mean,
            var,
            s,
            a,
        }
    }
}

pub struct AggSummary {
    pub n: u64,
    pub s_f: f64,
    pub a_f: f64,
    pub q_f: f64,
    /// exact mean S/n rounded to f64
    pub mean: f64,
    /// exact (n-1)-variance of the multiset w.r.t. the supplied squares, rounded to f64
    pub var: f64,
    pub s: BigInt,
    pub a: BigInt,
}

/// |v - S| / (u * A) where v is a float, S and A exact (units 2^-1074); None if A == 0
pub fn err_ratio(v: f64, s: &BigInt, a: &BigInt, u: f64) -> Option<f64> {
    if a.is_zero() {
        return None;
    }
    let diff = (f64_to_big(v) - s).abs();
    // ratio diff/A is dimensionless
    Some(ratio(&diff, a) / u)
}

#[cfg(test)]
mod tests {
    use super::*;
    #[test]
    fn superacc_matches_bigint() {
        let xs = [
            1.0,
            -1.0,
            1e300,
            -1e300,
            5e-324,
            3.5,
            -2.25,
            f64::MAX,
            -f64::MAX,
            1e-310,
            0.1,
            0.2,
        ];
        let mut acc = SuperAcc::new();
        let mut big = BigInt::zero();
        for _ in 0..1000 {
            for &x in &xs {
                acc.add(x);
                big += f64_to_big(x);
            }
        }
        assert_eq!(acc.to_big(), big);
        let mut neg = SuperAcc::new();
        for _ in 0..100000 {
            neg.add(-0.3);
        }
        assert_eq!(neg.to_big(), f64_to_big(-0.3) * 100000);
        let mut m = acc.clone();
        m.merge(&neg);
        assert_eq!(m.to_big(), big + f64_to_big(-0.3) * 100000);
    }
    #[test]
    fn conversions() {
        for &x in &[1.0, 0.1, 1e300, 1e-300, 5e-324, -7.25, 3e-320] {
            assert_eq!(big_val(&f64_to_big(x)), x);
        }
        let a = f64_to_big(3.0);
        let b = f64_to_big(4.0);
        assert!((ratio(&a, &b) - 0.75).abs() < 1e-15);
        let mut g = Agg::new();
        for &x in &[1.0, 2.0, 3.0, 4.0] {
            g.push(x, x * x);
        }
        let s = g.summary();
        assert_eq!(s.mean, 2.5);
        assert!((s.var - 5.0 / 3.0).abs() < 1e-15);
    }
}
