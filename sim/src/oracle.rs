//! Property oracles for the fault-free configuration: C08 (compensated-summation error bound
//! against the exact sum) and C09 (any history == the batch computation up to rounding, exact
//! counts, idempotent side-effect-free queries, neutral empty state).
//!
//! The *comparison* for C09 is real-history vs real-batch; the exact model supplies only the
//! tolerance (first-order rounding bounds with explicit constants, DESIGN §5.3).

use crate::machines::*;
use crate::world::*;
use std::collections::BTreeMap;

/// the C08 constant: "a small constant multiple of the unit roundoff"
pub const K: f64 = 8.0;
/// variance constant c_v = 4(K+2)
pub const CV: f64 = 4.0 * (K + 2.0);

/// relative accuracy attributed to statrs' Student-t quantile when its dof argument changes in
/// the last bits (only the Welch interval of Unpaired has a data-dependent dof)
pub const T_QUANTILE_NOISE: f64 = 1e-9;

#[derive(Clone, Copy, Debug, PartialEq, Eq)]
pub enum Prop {
    C08,
    C09,
}

#[derive(Clone, Debug)]
pub struct Violation {
    pub property: String,
    pub invariant: String,
    pub slot: u16,
    pub detail: String,
}

impl Violation {
    pub fn new(property: &str, invariant: &str, slot: u16, detail: String) -> Self {
        Violation { property: property.into(), invariant: invariant.into(), slot, detail }
    }
    pub fn key(&self) -> (String, String) {
        (self.property.clone(), self.invariant.clone())
    }
}

/// Counters and worst-case ratios gathered while checking; merged commutatively across runs.
#[derive(Clone, Debug, Default)]
pub struct Stats {
    pub counters: BTreeMap<String, u64>,
    /// worst observed error / tolerance per check category (must stay well below 1 on a correct tree)
    pub worst: BTreeMap<String, f64>,
}

impl Stats {
    pub fn inc(&mut self, k: &str) {
        *self.counters.entry(k.to_string()).or_insert(0) += 1;
    }
    pub fn add(&mut self, k: &str, n: u64) {
        *self.counters.entry(k.to_string()).or_insert(0) += n;
    }
    pub fn worst(&mut self, k: &str, r: f64) {
        let e = self.worst.entry(k.to_string()).or_insert(0.0);
        if r > *e || r.is_nan() {
            *e = r;
        }
    }
    pub fn merge(&mut self, o: &Stats) {
        for (k, v) in &o.counters {
            *self.counters.entry(k.clone()).or_insert(0) += v;
        }
        for (k, v) in &o.worst {
            let e = self.worst.entry(k.clone()).or_insert(0.0);
            if *v > *e {
                *e = *v;
            }
        }
    }
    pub fn get(&self, k: &str) -> u64 {
        self.counters.get(k).copied().unwrap_or(0)
    }
}

#[derive(Clone, Copy, Debug)]
pub struct CheckCfg<'a> {
    pub prop: Prop,
    pub confs: &'a [u8],
    /// all tape values and all partial sums (and sums of squares) are exactly representable:
    /// demand bit equality instead of tolerances
    pub exact_data: bool,
    /// additionally ask a freshly spawned OS thread the same questions about a copy of the
    /// state: the answers must be bit-identical (an answer may depend on the state only, not on
    /// what this thread was asked before - hidden thread-local state would show here)
    pub pristine: bool,
}

fn untransform(t: Transform, v: f64) -> f64 {
    match t {
        Transform::Id | Transform::Diff => v,
        Transform::Ln => v.ln(),
        Transform::Recip => 1.0 / v,
    }
}

/// smallest positive subnormal of the element type: absolute floor of every tolerance
fn eta<M: Machine>() -> f64 {
    match M::FLT {
        Flt::F32 => f32::from_bits(1) as f64,
        Flt::F64 => f64::from_bits(1),
        Flt::Int => 0.0,
    }
}

/// A back-transformed answer (exp / reciprocal, rounded to the element type) that lands in the
/// subnormal range of the element type is quantised to multiples of eta: history and batch may
/// then differ by a grid step although their accumulation-space values agree to rounding. This is
/// that step, mapped back into the accumulation space (0 for untransformed machines, whose
/// tolerances carry eta as an absolute floor already).
fn out_quant<M: Machine>(tr: Transform, a: f64, b: f64) -> f64 {
    let m = a.abs().min(b.abs());
    match tr {
        Transform::Ln => 2.0 * eta::<M>() / m,
        Transform::Recip => 2.0 * eta::<M>() / (m * m),
        _ => 0.0,
    }
}

pub fn sorted_records<M: Machine>(w: &World<M>, m: &Model) -> [Vec<Bits>; 2] {
    let mut out: [Vec<Bits>; 2] = [Vec::new(), Vec::new()];
    if M::LOCKSTEP {
        let mut idx: Vec<(u32, u32)> = m.items[0].iter().copied().zip(m.pair_b.iter().copied()).collect();
        idx.sort_unstable();
        out[0] = idx.iter().map(|&(i, _)| w.tapes[0][i as usize]).collect();
        out[1] = idx.iter().map(|&(_, j)| w.tapes[1][j as usize]).collect();
    } else {
        for k in 0..2 {
            let mut idx = m.items[k].clone();
            idx.sort_unstable();
            out[k] = idx.iter().map(|&i| w.tapes[k][i as usize]).collect();
        }
    }
    out
}

/// Full check of one slot: step invariants (counts, idempotent and side-effect-free queries)
/// and the property oracle. `stats` gathers coverage and worst ratios.
pub fn check_slot<M: Machine>(w: &World<M>, slot: u16, cfg: CheckCfg, stats: &mut Stats) -> Option<Violation> {
    let s = w.get(slot)?;
    let pid = match cfg.prop {
        Prop::C08 => "C08",
        Prop::C09 => "C09",
    };
    let plan = ObsPlan { confs: cfg.confs, unguarded: false };
    let fp0 = M::fingerprint(&s.st);
    let o1 = M::observe(&s.st, plan);
    let fp1 = M::fingerprint(&s.st);
    let o2 = M::observe(&s.st, plan);
    let fp2 = M::fingerprint(&s.st);
    stats.inc("slot_checks");
    stats.add("queries", (o1.len() * 2) as u64);
    if fp0 != fp1 || fp1 != fp2 {
        return Some(Violation::new("C09", "query-modified-state", slot, format!("before {fp0} after {fp2}")));
    }
    if o1 != o2 {
        let d = first_diff(&o1, &o2);
        return Some(Violation::new("C09", "query-not-idempotent", slot, d));
    }
    if cfg.pristine {
        let copy = s.st.clone();
        let confs: Vec<u8> = cfg.confs.to_vec();
        let o3 = std::thread::scope(|sc| sc.spawn(move || M::observe(&copy, ObsPlan { confs: &confs, unguarded: false })).join().expect("pristine observer thread panicked"));
        stats.inc("pristine_thread_comparisons");
        if o1 != o3 {
            return Some(Violation::new(
                "C09",
                "query-answer-depends-on-what-the-thread-was-asked-before",
                slot,
                format!("a copy of the state queried on a fresh thread answers differently: {}", first_diff(&o1, &o3)),
            ));
        }
    }
    // exact counters
    let expect_counts: Vec<u64> = match (M::FAMILY, M::name().as_str()) {
        (Family::Unpaired, _) => vec![s.model.count(0), s.model.count(1)],
        (Family::Count, "proportion::Stats") => {
            let succ = s.model.items[0].iter().filter(|&&i| w.tapes[0][i as usize] != 0).count() as u64;
            vec![s.model.count(0), succ]
        }
        (Family::Sum, _) => vec![],
        _ => vec![s.model.count(0)],
    };
    for (k, &e) in expect_counts.iter().enumerate() {
        match obs_get(&o1, What::Count(k as u8)) {
            Some(Val::U(g)) if *g == e => {}
            other => {
                return Some(Violation::new(
                    pid,
                    "count-mismatch",
                    slot,
                    format!("counter {k}: model {e}, state reports {:?}", other.map(|v| v.render())),
                ))
            }
        }
    }
    match cfg.prop {
        Prop::C08 => c08::<M>(w, slot, s, &o1, cfg, stats),
        Prop::C09 => c09::<M>(w, slot, s, &o1, cfg, stats),
    }
}

fn first_diff(a: &Obs, b: &Obs) -> String {
    for (x, y) in a.iter().zip(b.iter()) {
        if x != y {
            return format!("{:?}: first {} second {}", x.0, x.1.render(), y.1.render());
        }
    }
    format!("lengths {} vs {}", a.len(), b.len())
}

// ------------------------------------------------------------------------------------------
// C08
// ------------------------------------------------------------------------------------------

fn c08<M: Machine>(_w: &World<M>, slot: u16, s: &Slot<M>, o: &Obs, cfg: CheckCfg, stats: &mut Stats) -> Option<Violation> {
    let u = M::unit_roundoff();
    let sm = s.model.agg[0].summary();
    let n = sm.n as f64;
    if sm.n == 0 {
        if M::FAMILY == Family::Sum {
            let v = obs_get(o, What::Value)?.as_f()?;
            if v != 0.0 {
                return Some(Violation::new("C08", "empty-register-nonzero", slot, format!("value {v:?}")));
            }
        }
        return None;
    }
    let bound = K + 4.0 * n * u;
    match M::FAMILY {
        Family::Sum => {
            let v = obs_get(o, What::Value)?.as_f()?;
            stats.inc("c08_sum_checks");
            if !v.is_finite() {
                return Some(Violation::new("C08", "sum-error-bound", slot, format!("value {v:?} not finite on finite data")));
            }
            if cfg.exact_data {
                stats.inc("c08_exact_checks");
                if crate::exact::f64_to_big(v) != sm.s {
                    return Some(Violation::new(
                        "C08",
                        "exact-sum-mismatch",
                        slot,
                        format!("all partial sums are representable: exact {:?}, got {:?} (n={}, merges={})", sm.s_f, v, sm.n, s.model.merges),
                    ));
                }
                return None;
            }
            match crate::exact::err_ratio(v, &sm.s, &sm.a, u) {
                None => {
                    if v != 0.0 {
                        return Some(Violation::new("C08", "sum-error-bound", slot, format!("sum|x| = 0 but value {v:?}")));
                    }
                }
                Some(r) => {
                    // absolute floor for streams living in the subnormal range
                    let floor = 4.0 * eta::<M>() / (u * sm.a_f);
                    stats.worst("c08_err_over_uA", r);
                    if s.model.right_acc {
                        stats.worst("c08_err_over_uA.right_acc", r);
                    } else {
                        stats.worst("c08_err_over_uA.no_right_acc", r);
                    }
                    if r > bound + floor {
                        return Some(Violation::new(
                            "C08",
                            "sum-error-bound",
                            slot,
                            format!(
                                "|value - exact| = {:.3} u*sum|x| > {:.3} (n={}, merges={}, depth={}, right_acc={}, value={:?}, exact={:?}, sum|x|={:?})",
                                r, bound, sm.n, s.model.merges, s.model.depth, s.model.right_acc, v, sm.s_f, sm.a_f
                            ),
                        ));
                    }
                }
            }
            None
        }
        Family::Mean if M::HAS_VAR => {
            // "the statistics built on it inherit the bound": sum = mean * n, and
            // sum_sq = var * (n-1) + mean * sum, reconstructed in f64
            let mean = obs_get(o, What::Mean(0))?.as_f()?;
            stats.inc("c08_stat_checks");
            let sum = mean * n;
            if cfg.exact_data {
                // mean is one correctly rounded division of the exact sum
                return None;
            }
            if sm.a_f > 0.0 {
                let diff = (crate::exact::f64_to_big_checked(sum)? - &sm.s).magnitude().clone();
                let r = crate::exact::ratio(&diff.into(), &sm.a) / u;
                // two extra roundings (the division by n and our multiplication) cost <= 2u|S| <= 2u*A
                let floor = 4.0 * eta::<M>() * n / (u * sm.a_f);
                stats.worst("c08_mean_times_n_over_uA", r);
                if r > bound + 2.0 + floor {
                    return Some(Violation::new(
                        "C08",
                        "stat-sum-error-bound",
                        slot,
                        format!(
                            "|mean*n - exact sum| = {:.3} u*sum|x| > {:.3} (n={}, merges={}, right_acc={})",
                            r,
                            bound + 2.0,
                            sm.n,
                            s.model.merges,
                            s.model.right_acc
                        ),
                    ));
                }
            }
            if sm.n >= 2 {
                if let (Some(var), true) = (obs_get(o, What::Var(0)).and_then(|v| v.as_f()), sm.q_f > 0.0) {
                    // sum_sq reconstructed; roundings: mean*sum (2), subtraction, division, ours (3): <= 8u*Q
                    let rec = var * (n - 1.0) + mean * sum;
                    let r = (rec - sm.q_f).abs() / (u * sm.q_f);
                    let floor = 16.0 * eta::<M>() * n / (u * sm.q_f);
                    // on top of the K*u*Q of the register itself the reconstruction costs the
                    // roundings of mean*sum (library and ours), of the subtraction, the division
                    // and of mean*n standing in for sum: <= 10u*Q by Cauchy-Schwarz
                    let lim = bound + 10.0 + floor;
                    // squares in or next to the subnormal range: the absolute floor swamps the
                    // relative bound and the ratio itself is no longer computable in f64
                    if !(floor.is_finite() && floor < 4.0) {
                        stats.inc("c08_sumsq_skipped_squares_underflow");
                    } else if r.is_nan() || r > lim {
                        stats.worst("c08_sumsq_over_uQ", r);
                        return Some(Violation::new(
                            "C08",
                            "stat-sumsq-error-bound",
                            slot,
                            format!(
                                "|var*(n-1)+mean*sum - exact sum of squares| = {:.3} u*Q > {:.3} (n={}, merges={}, right_acc={})",
                                r, lim, sm.n, s.model.merges, s.model.right_acc
                            ),
                        ));
                    } else {
                        // reported relative to the part of the limit that is not the absolute floor
                        stats.worst("c08_sumsq_over_uQ", (r - floor).max(0.0));
                    }
                }
            }
            None
        }
        _ => None,
    }
}

// ------------------------------------------------------------------------------------------
// C09
// ------------------------------------------------------------------------------------------

fn c09<M: Machine>(w: &World<M>, slot: u16, s: &Slot<M>, o_h: &Obs, cfg: CheckCfg, stats: &mut Stats) -> Option<Violation> {
    if s.model.total() == 0 {
        // an empty history equals the empty state
        let e = M::observe(&M::empty(0), ObsPlan { confs: cfg.confs, unguarded: false });
        if *o_h != e {
            return Some(Violation::new("C09", "empty-history-differs-from-empty-state", slot, first_diff(o_h, &e)));
        }
        stats.inc("c09_empty_checks");
        return None;
    }
    let recs = sorted_records(w, &s.model);
    let plan = ObsPlan { confs: cfg.confs, unguarded: false };
    let (bst, oneshot) = match M::batch([&recs[0], &recs[1]], plan) {
        Ok(x) => x,
        // the one-batch computation itself refuses records every one of which is valid
        Err(e) => return Some(Violation::new("C09", "batch-computation-rejects-valid-records", slot, e)),
    };
    let o_b = M::observe(&bst, plan);
    stats.inc("c09_batch_comparisons");
    match M::FAMILY {
        Family::Sum => None,
        Family::Count => {
            stats.inc("c09_exact_state_checks");
            if *o_h != o_b {
                return Some(Violation::new("C09", "merged-state-not-componentwise-sum", slot, first_diff(o_h, &o_b)));
            }
            if M::fingerprint(&s.st) != M::fingerprint(&bst) {
                return Some(Violation::new(
                    "C09",
                    "merged-state-not-componentwise-sum",
                    slot,
                    format!("{} vs batch {}", M::fingerprint(&s.st), M::fingerprint(&bst)),
                ));
            }
            for (c, r) in &oneshot {
                let what = if M::name() == "quantile::Stats" { What::QCi(*c, 2) } else { What::Ci(*c) };
                if let Some(Val::Ci(h)) = obs_get(o_h, what) {
                    if h != r {
                        return Some(Violation::new(
                            "C09",
                            "ci-differs-from-one-shot",
                            slot,
                            format!("{}: history {:?} one-shot {:?}", conf_name(*c), h, r),
                        ));
                    }
                }
            }
            None
        }
        Family::Mean => {
            // (exactly representable data used to demand bit equality here; that presumes a
            // sum-of-values / sum-of-squares implementation and would alarm on an equally valid
            // Welford-style one, whose updates divide - the rounding tolerances apply instead)
            let r = mean_stream_check::<M>(slot, s, 0, o_h, &o_b, stats);
            if r.is_some() {
                return r;
            }
            mean_ci_check::<M>(slot, s, o_h, &o_b, &oneshot, stats)
        }
        Family::Unpaired => {
            for k in 0..2 {
                if s.model.count(k) == 0 {
                    continue;
                }
                let r = mean_stream_check::<M>(slot, s, k, o_h, &o_b, stats);
                if r.is_some() {
                    return r;
                }
            }
            unpaired_ci_check::<M>(slot, s, o_h, &o_b, &oneshot, stats)
        }
    }
}

/// Population doubling under C09: the slot's state merged with copies of itself k times holds
/// every observation 2^k times (counts beyond 2^24, 2^32, 2^53 - populations that only nested
/// merges reach). One batch computation over that population is out of reach, but what it would
/// report is known exactly from the model: count n*2^k, the same mean, variance
/// Q_c*2^k/(n*2^k - 1), and merging a register with its own copy is exact in floating point, so
/// the rounding tolerances of the undoubled comparison apply unchanged. k is a function of the
/// trace (slot number and count).
pub fn doubling_probe_c09<M: Machine>(slot: u16, s: &Slot<M>, stats: &mut Stats) -> Option<Violation> {
    if M::FAMILY != Family::Mean || M::STREAMS != 1 {
        return None;
    }
    let n = s.model.count(0);
    if !(2..=4096).contains(&n) {
        return None;
    }
    let k = [1u32, 9, 17, 23, 24, 25, 31, 32, 33, 41][((slot as u64 + n) % 10) as usize];
    let op = (n % 3) as u8;
    let mut st = s.st.clone();
    for _ in 0..k {
        let (a, b) = (st.clone(), st.clone());
        match guard(|| M::merge(a, b, op)) {
            Ok(x) => st = x,
            Err(p) => return Some(Violation::new("C09", "merge-of-valid-states-failed", slot, format!("a state of {n} observations merged with its own copy: {p}"))),
        }
    }
    // ... and once more with the state itself: 2^k + 1 copies, a count that is not a multiple of a
    // large power of two (a counter kept in a narrower or floating type stalls exactly there)
    {
        let (a, b) = (st.clone(), s.st.clone());
        match guard(|| M::merge(a, b, op + 1)) {
            Ok(x) => st = x,
            Err(p) => return Some(Violation::new("C09", "merge-of-valid-states-failed", slot, format!("2^{k} copies of a state of {n} observations merged with one more copy: {p}"))),
        }
    }
    stats.inc("c09_population_doubling_probes");
    let copies = (1u64 << k) + 1;
    let want = n * copies;
    let plan = ObsPlan { confs: &[], unguarded: false };
    let o = M::observe(&st, plan);
    match obs_get(&o, What::Count(0)) {
        Some(Val::U(g)) if *g == want => {}
        other => {
            return Some(Violation::new(
                "C09",
                "count-mismatch-after-self-merges",
                slot,
                format!("2^{k} + 1 copies of {n} observations (self-merges): the state reports {:?}, one batch over that population holds {want}", other.map(|v| v.render())),
            ))
        }
    }
    let t = tolerances::<M>(s, 0);
    let sm = s.model.agg[0].summary();
    // the sums of the doubled population must stay inside the element type's range
    let fmax = match M::FLT {
        Flt::F32 => f32::MAX as f64,
        _ => f64::MAX,
    };
    let scale = copies as f64;
    if !(sm.a_f * scale < fmax / 8.0 && sm.q_f * scale < fmax / 8.0) {
        stats.inc("c09_population_doubling_range_skipped");
        return None;
    }
    let tr = M::TRANSFORM;
    let u = t.u;
    let o0 = M::observe(&s.st, plan);
    let (m0, mk) = (getf(&o0, What::Mean(0))?, getf(&o, What::Mean(0))?);
    let slack = match tr {
        Transform::Ln => 8.0 * u * (1.0 + t.mu.abs()),
        Transform::Recip => 8.0 * u * t.mu.abs(),
        _ => 0.0,
    };
    let tol = 2.0 * (t.dm + slack) + out_quant::<M>(tr, m0, mk);
    let d = if mk.to_bits() == m0.to_bits() { 0.0 } else { (untransform(tr, mk) - untransform(tr, m0)).abs() };
    stats.worst("c09_doubling_mean_over_tol", if d == 0.0 { 0.0 } else { d / tol });
    if !(d <= tol) {
        return Some(Violation::new(
            "C09",
            "mean-differs-from-batch-after-self-merges",
            slot,
            format!("2^{k} + 1 copies of {n} observations (self-merges, count {want}): mean {:?}, the mean of the population is {:?}: |diff| in accumulation space {:e} > tol {:e}", mk, m0, d, tol),
        ));
    }
    if !t.well {
        return None;
    }
    let nk = n as f64 * scale;
    let var_want = t.var * (n as f64 - 1.0) * scale / (nk - 1.0);
    if let Some(vk) = getf(&o, What::Var(0)) {
        let d = (vk - var_want).abs();
        let tol = 2.0 * t.dv;
        stats.worst("c09_doubling_var_over_tol", d / tol);
        if !(d <= tol) {
            return Some(Violation::new(
                "C09",
                "variance-differs-from-batch-after-self-merges",
                slot,
                format!("2^{k} + 1 copies of {n} observations (self-merges, count {want}): variance {:?}, the variance of that population is {:?}: |diff| {:e} > tol {:e}", vk, var_want, d, tol),
            ));
        }
    }
    // (the standard error is not judged here: its definition - sd / sqrt(n - 1) today - is the
    // library's own, and without a batch run over 2^k copies there is no second evaluation of it;
    // the C05 doubling probe judges it for Geometric / Harmonic against the doubled arithmetic twin)
    None
}

/// tolerances in the accumulation space for stream k
struct Tol {
    n: f64,
    /// exact mean / variance / sd of the multiset in T-space
    mu: f64,
    var: f64,
    sd: f64,
    dm: f64,
    dv: f64,
    dsd: f64,
    well: bool,
    u: f64,
}

fn tolerances<M: Machine>(s: &Slot<M>, k: usize) -> Tol {
    let u = M::unit_roundoff();
    let sm = s.model.agg[k].summary();
    let n = sm.n as f64;
    let e = eta::<M>();
    let dm = 2.0 * (K * u * sm.a_f / n + u * sm.s_f.abs() / n) + 8.0 * e;
    let (dv, well, sd, dsd) = if sm.n >= 2 {
        let dv = 2.0 * CV * u * sm.q_f / (n - 1.0) + 8.0 * e;
        let well = sm.var.is_finite() && sm.var > 0.0 && sm.var >= 16.0 * dv;
        let sd = if sm.var > 0.0 { sm.var.sqrt() } else { 0.0 };
        let dsd = if well { dv / (1.8 * sd) + 2.0 * u * sd } else { f64::INFINITY };
        (dv, well, sd, dsd)
    } else {
        (f64::INFINITY, false, 0.0, f64::INFINITY)
    };
    Tol { n, mu: sm.mean, var: sm.var, sd, dm, dv, dsd, well, u }
}

fn getf(o: &Obs, w: What) -> Option<f64> {
    obs_get(o, w).and_then(|v| v.as_f())
}

fn presence_mismatch(slot: u16, o_h: &Obs, o_b: &Obs) -> Option<Violation> {
    if o_h.len() != o_b.len() || o_h.iter().zip(o_b.iter()).any(|(a, b)| a.0 != b.0) {
        return Some(Violation::new(
            "C09",
            "observable-set-differs",
            slot,
            format!(
                "history answers {:?}, batch answers {:?}",
                o_h.iter().map(|x| x.0).collect::<Vec<_>>(),
                o_b.iter().map(|x| x.0).collect::<Vec<_>>()
            ),
        ));
    }
    for ((wa, a), (_, b)) in o_h.iter().zip(o_b.iter()) {
        let pa = matches!(a, Val::Panic(_) | Val::Ci(Out::Panic(_)));
        let pb = matches!(b, Val::Panic(_) | Val::Ci(Out::Panic(_)));
        if pa != pb {
            return Some(Violation::new(
                "C09",
                "history-panics-where-batch-does-not",
                slot,
                format!("{:?}: history {} batch {}", wa, a.render(), b.render()),
            ));
        }
    }
    None
}

fn mean_stream_check<M: Machine>(slot: u16, s: &Slot<M>, k: usize, o_h: &Obs, o_b: &Obs, stats: &mut Stats) -> Option<Violation> {
    if let Some(v) = presence_mismatch(slot, o_h, o_b) {
        return Some(v);
    }
    let t = tolerances::<M>(s, k);
    let kk = k as u8;
    let tr = M::TRANSFORM;
    let u = t.u;
    // --- mean
    let (mh, mb) = (getf(o_h, What::Mean(kk))?, getf(o_b, What::Mean(kk))?);
    let (th, tb) = (untransform(tr, mh), untransform(tr, mb));
    let slack = match tr {
        Transform::Ln => 8.0 * u * (1.0 + t.mu.abs()),
        Transform::Recip => 8.0 * u * t.mu.abs(),
        _ => 0.0,
    };
    let tol = t.dm + slack + out_quant::<M>(tr, mh, mb);
    // history and batch that are both NaN (or bit-identical infinities) are "the same answer";
    // C09 compares the two paths, it does not judge the answer itself (that is C11's business)
    let d = if (th.is_nan() && tb.is_nan()) || mh.to_bits() == mb.to_bits() { 0.0 } else { (th - tb).abs() };
    stats.inc("c09_mean_checks");
    stats.worst("c09_mean_diff_over_tol", if d == 0.0 { 0.0 } else { d / tol });
    if !(d <= tol) {
        return Some(Violation::new(
            "C09",
            "mean-differs-from-batch",
            slot,
            format!(
                "stream {k}: history mean {:?} batch mean {:?}: |diff| in accumulation space {:e} > tol {:e} (n={}, merges={}, right_acc={})",
                mh, mb, d, tol, t.n, s.model.merges, s.model.right_acc
            ),
        ));
    }
    if t.n < 2.0 {
        return None;
    }
    if !t.well {
        stats.inc("c09_ill_conditioned");
        return None;
    }
    // --- variance and standard deviation (Arithmetic / Unpaired sides)
    if let (Some(vh), Some(vb)) = (getf(o_h, What::Var(kk)), getf(o_b, What::Var(kk))) {
        let d = if (vh.is_nan() && vb.is_nan()) || vh.to_bits() == vb.to_bits() { 0.0 } else { (vh - vb).abs() };
        stats.inc("c09_var_checks");
        stats.worst("c09_var_diff_over_tol", d / t.dv);
        // also record how far either is from the exact variance (diagnostic only)
        stats.worst("c09_var_vs_exact_over_tol", ((vh - t.var).abs()).max((vb - t.var).abs()) / (t.dv / 2.0));
        if !(d <= t.dv) {
            return Some(Violation::new(
                "C09",
                "variance-differs-from-batch",
                slot,
                format!("stream {k}: history {:?} batch {:?}: |diff| {:e} > tol {:e} (n={}, merges={}, right_acc={})", vh, vb, d, t.dv, t.n, s.model.merges, s.model.right_acc),
            ));
        }
        if let (Some(sh), Some(sb)) = (getf(o_h, What::Sd(kk)), getf(o_b, What::Sd(kk))) {
            let d = if (sh.is_nan() && sb.is_nan()) || sh.to_bits() == sb.to_bits() { 0.0 } else { (sh - sb).abs() };
            stats.worst("c09_sd_diff_over_tol", d / t.dsd);
            if !(d <= t.dsd) {
                return Some(Violation::new(
                    "C09",
                    "std-dev-differs-from-batch",
                    slot,
                    format!("stream {k}: history {:?} batch {:?}: |diff| {:e} > tol {:e}", sh, sb, d, t.dsd),
                ));
            }
        }
    }
    // --- standard error, compared in the accumulation space
    if let (Some(eh), Some(eb)) = (getf(o_h, What::Sem(kk)), getf(o_b, What::Sem(kk))) {
        let jac = |m: f64| match tr {
            Transform::Ln => m,
            Transform::Recip => m * m,
            _ => 1.0,
        };
        let (xh, xb) = (eh / jac(mh), eb / jac(mb));
        let semt = t.sd / (t.n - 1.0).sqrt();
        let rel_mean = match tr {
            Transform::Ln => 2.0 * tol,
            Transform::Recip => 4.0 * tol / t.mu.abs(),
            _ => 0.0,
        };
        // the reported standard error is itself rounded to the element type: in its subnormal
        // range that is an absolute step of eta, i.e. eta / jacobian in the accumulation space
        let quant_e = match tr {
            Transform::Ln | Transform::Recip => 2.0 * eta::<M>() / jac(mh.abs().min(mb.abs())),
            _ => 0.0,
        };
        let tol_e = t.dsd / (t.n - 1.0).sqrt() + semt * (16.0 * u + rel_mean) + quant_e;
        let d = if (eh.is_nan() && eb.is_nan()) || eh.to_bits() == eb.to_bits() { 0.0 } else { (xh - xb).abs() };
        stats.inc("c09_sem_checks");
        stats.worst("c09_sem_diff_over_tol", d / tol_e);
        if !(d <= tol_e) {
            return Some(Violation::new(
                "C09",
                "sem-differs-from-batch",
                slot,
                format!("stream {k}: history {:?} batch {:?}: |diff| in accumulation space {:e} > tol {:e}", eh, eb, d, tol_e),
            ));
        }
    }
    None
}

fn ci_pairs<'a>(o_h: &'a Obs, o_b: &'a Obs, oneshot: &'a [(u8, Out<Iv>)]) -> Vec<(u8, &'a Out<Iv>, &'a Out<Iv>, &'static str)> {
    let mut v = Vec::new();
    for (w, val) in o_h {
        if let (What::Ci(c), Val::Ci(h)) = (w, val) {
            if let Some(Val::Ci(b)) = obs_get(o_b, What::Ci(*c)) {
                v.push((*c, h, b, "batch-state ci_mean"));
            }
            if let Some((_, r)) = oneshot.iter().find(|(cc, _)| cc == c) {
                v.push((*c, h, r, "one-shot ci"));
            }
        }
    }
    v
}

fn mean_ci_check<M: Machine>(slot: u16, s: &Slot<M>, o_h: &Obs, o_b: &Obs, oneshot: &[(u8, Out<Iv>)], stats: &mut Stats) -> Option<Violation> {
    let t = tolerances::<M>(s, 0);
    if t.n < 2.0 || !t.well {
        return None;
    }
    let tr = M::TRANSFORM;
    let u = t.u;
    for (c, h, b, which) in ci_pairs(o_h, o_b, oneshot) {
        stats.inc("c09_ci_checks");
        match (h, b) {
            (Out::Ok(ih), Out::Ok(ib)) => {
                if ih.kind != ib.kind {
                    return Some(Violation::new(
                        "C09",
                        "ci-kind-differs-from-batch",
                        slot,
                        format!("{} vs {which}: history {} batch {}", conf_name(c), ih.render(), ib.render()),
                    ));
                }
                for (bh, bb, name) in [(ih.lo, ib.lo, "low"), (ih.hi, ib.hi, "high")] {
                    if bh.to_bits() == bb.to_bits() {
                        continue;
                    }
                    let (xh, xb) = (untransform(tr, bh), untransform(tr, bb));
                    if !xh.is_finite() || !xb.is_finite() {
                        // a bound that over/underflowed in the element type on one side only:
                        // both must then be at the edge of the range
                        stats.inc("c09_ci_overflow_edge");
                        continue;
                    }
                    let span = (xb - t.mu).abs();
                    let slack = match tr {
                        Transform::Ln => 8.0 * u * (1.0 + xb.abs()),
                        Transform::Recip => 8.0 * u * xb.abs(),
                        _ => 0.0,
                    };
                    let tol = t.dm + (span / t.sd) * t.dsd + 4.0 * u * (t.mu.abs() + span) + slack + 8.0 * eta::<M>() + out_quant::<M>(tr, bh, bb);
                    let d = (xh - xb).abs();
                    stats.worst("c09_ci_diff_over_tol", d / tol);
                    if !(d <= tol) {
                        return Some(Violation::new(
                            "C09",
                            "ci-differs-from-batch",
                            slot,
                            format!(
                                "{} {name} bound vs {which}: history {:?} batch {:?}: |diff| in accumulation space {:e} > tol {:e} (n={}, merges={}, right_acc={})",
                                conf_name(c), bh, bb, d, tol, t.n, s.model.merges, s.model.right_acc
                            ),
                        ));
                    }
                }
            }
            (Out::Err(eh), Out::Err(eb)) => {
                if eh.variant() != eb.variant() {
                    return Some(Violation::new(
                        "C09",
                        "ci-error-differs-from-batch",
                        slot,
                        format!("{} vs {which}: history {} batch {}", conf_name(c), eh.render(), eb.render()),
                    ));
                }
            }
            (Out::Panic(_), Out::Panic(_)) => {}
            (x, y) => {
                // the only legitimate Ok/Err boundary in valid data: a two-sided harmonic interval
                // whose reciprocal-space lower bound is within rounding of 0
                if tr == Transform::Recip && c % 3 == 0 {
                    let ok = match (x, y) {
                        (Out::Ok(i), Out::Err(_)) | (Out::Err(_), Out::Ok(i)) => Some(i),
                        _ => None,
                    };
                    if let Some(i) = ok {
                        let xl = 1.0 / i.hi; // reciprocal-space lower bound of the Ok side
                        let span = (xl - t.mu).abs();
                        let tol = t.dm + (span / t.sd) * t.dsd + 12.0 * u * (t.mu.abs() + span);
                        if xl.abs() <= tol {
                            stats.inc("c09_harmonic_boundary");
                            continue;
                        }
                    }
                }
                return Some(Violation::new(
                    "C09",
                    "ci-outcome-differs-from-batch",
                    slot,
                    format!("{} vs {which}: history {} batch {}", conf_name(c), x.class(), y.class()),
                ));
            }
        }
    }
    None
}

fn unpaired_ci_check<M: Machine>(slot: u16, s: &Slot<M>, o_h: &Obs, o_b: &Obs, oneshot: &[(u8, Out<Iv>)], stats: &mut Stats) -> Option<Violation> {
    let ta = tolerances::<M>(s, 0);
    let tb = tolerances::<M>(s, 1);
    if ta.n < 2.0 || tb.n < 2.0 || !ta.well || !tb.well {
        return None;
    }
    let u = ta.u;
    let eps = (ta.dv / ta.var).max(tb.dv / tb.var);
    let md = ta.mu - tb.mu;
    for (c, h, b, which) in ci_pairs(o_h, o_b, oneshot) {
        stats.inc("c09_ci_checks");
        match (h, b) {
            (Out::Ok(ih), Out::Ok(ib)) => {
                if ih.kind != ib.kind {
                    return Some(Violation::new("C09", "ci-kind-differs-from-batch", slot, format!("{}: {} vs {}", conf_name(c), ih.render(), ib.render())));
                }
                for (bh, bb, name) in [(ih.lo, ib.lo, "low"), (ih.hi, ib.hi, "high")] {
                    if bh.to_bits() == bb.to_bits() {
                        continue;
                    }
                    if !bh.is_finite() || !bb.is_finite() {
                        return Some(Violation::new("C09", "ci-differs-from-batch", slot, format!("{} {name}: history {:?} batch {:?}", conf_name(c), bh, bb)));
                    }
                    let span = (bb - md).abs();
                    // statrs forms the t quantile as sqrt(dof (1 - y) / y) with y = dof / (dof + t^2)
                    // rounded to f64: for small t (levels near 0, many degrees of freedom) 1 - y
                    // cancels and the quantile carries a relative error of u_f64 (dof + t^2) / (2 t^2),
                    // which differs between history and batch because their dof differ in the last
                    // bits. Estimate it from the exact variances; skip a bound it dominates.
                    let (sa, sb) = (ta.var / ta.n, tb.var / tb.n);
                    let se = (sa + sb).sqrt();
                    let dof = (sa + sb) * (sa + sb) / (sa * sa / (ta.n + 1.0) + sb * sb / (tb.n + 1.0)) - 2.0;
                    let t_est = if se > 0.0 { span / se } else { 0.0 };
                    let qnoise = if t_est > 0.0 { se * (dof.max(1.0) + t_est * t_est) / (2.0 * t_est) * 8.0 * f64::EPSILON } else { f64::INFINITY };
                    if !(qnoise < span / 4.0) {
                        stats.inc("c09_unpaired_ci_quantile_noise_dominated");
                        continue;
                    }
                    // standard error and effective dof are smooth in the two variances; the
                    // t quantile has |d ln t / d ln dof| < 8 for dof >= 1 at every level used
                    // ... and is itself computed by an iterative solver (statrs inv_beta_reg) whose
                    // result is not a smooth function of dof below ~1e-12 relative: T_QUANTILE_NOISE
                    let tol = ta.dm + tb.dm + span * (64.0 * eps + T_QUANTILE_NOISE) + qnoise + 8.0 * u * (ta.mu.abs() + tb.mu.abs() + span) + 8.0 * eta::<M>();
                    let d = (bh - bb).abs();
                    stats.worst("c09_unpaired_ci_diff_over_tol", d / tol);
                    if !(d <= tol) {
                        return Some(Violation::new(
                            "C09",
                            "ci-differs-from-batch",
                            slot,
                            format!(
                                "{} {name} bound vs {which}: history {:?} batch {:?}: |diff| {:e} > tol {:e} (na={}, nb={}, merges={})",
                                conf_name(c), bh, bb, d, tol, ta.n, tb.n, s.model.merges
                            ),
                        ));
                    }
                }
            }
            (Out::Err(eh), Out::Err(eb)) if eh.variant() == eb.variant() => {}
            (Out::Panic(_), Out::Panic(_)) => {}
            (x, y) => {
                return Some(Violation::new(
                    "C09",
                    "ci-outcome-differs-from-batch",
                    slot,
                    format!("{} vs {which}: history {} batch {}", conf_name(c), x.class(), y.class()),
                ));
            }
        }
    }
    None
}

// ------------------------------------------------------------------------------------------
// alternation probe: an answer is a function of (state, confidence) and of nothing else
// ------------------------------------------------------------------------------------------

/// Two live states `a` and `b` of one run are asked in alternation, by one thread, the way two
/// tenants of a process take turns. Each is first asked alone (its own previous question being a
/// different confidence, so that whatever the library remembers of "the last request" belongs to
/// this state), then directly after the *other* state was asked the same question. The four
/// answers must pair up bit for bit ("repeated queries return identical results"). A memo of the
/// last request whose key does not identify the state (say count, mean and level but not the
/// spread) survives every single-object history and every history-vs-batch comparison - the
/// batch twin reads the same memo - and shows exactly here.
pub fn alternation_probe<M: Machine>(sa: &M::S, sb: &M::S, c: u8, unguarded: bool, slots: (u16, u16), stats: &mut Stats) -> Option<Violation> {
    let c2 = (c + 7) % N_CONF;
    let ask = |s: &M::S, c: u8| -> Obs { M::observe(s, ObsPlan { confs: &[c], unguarded }) };
    stats.inc("alternation_probes");
    let _ = ask(sa, c2);
    let clean_a = ask(sa, c);
    let _ = ask(sb, c2);
    let clean_b = ask(sb, c);
    let after_a = ask(sa, c); // directly after b answered the same question
    let after_b = ask(sb, c); // directly after a answered the same question
    let again_a = ask(sa, c);
    for (who, clean, later) in [(slots.0, &clean_a, &after_a), (slots.1, &clean_b, &after_b), (slots.0, &clean_a, &again_a)] {
        if clean != later {
            return Some(Violation::new(
                "C09",
                "query-answer-depends-on-a-neighbouring-state-s-query",
                who,
                format!("{} slot {} asked {} alone and again right after slot {} was asked the same: {} (states {} | {})", M::name(), who, conf_name(c), if who == slots.0 { slots.1 } else { slots.0 }, first_diff(clean, later), M::fingerprint(sa), M::fingerprint(sb)),
            ));
        }
    }
    None
}

/// the partner of slot `a` for the alternation probe: another live slot, preferably one holding
/// the same number of observations (the likeliest collision of a too-coarse key)
pub fn alternation_partner<M: Machine>(w: &World<M>, a: u16) -> Option<u16> {
    let na = w.get(a)?.model.total();
    let mut best: Option<(bool, u16)> = None;
    for i in w.live() {
        if i == a {
            continue;
        }
        let same = w.get(i).map(|s| s.model.total() == na).unwrap_or(false);
        match best {
            Some((true, _)) => {}
            Some((false, _)) if !same => {}
            _ => best = Some((same, i)),
        }
    }
    best.map(|(_, i)| i)
}


// ------------------------------------------------------------------------------------------
// C08 on states that lived through a refused call (fault configuration)
// ------------------------------------------------------------------------------------------

/// "The statistics built on it inherit the bound": whatever a refused call did to a state (kept
/// the accepted prefix, kept nothing, rolled something back), the sum it carries afterwards must
/// still lie within the compensated-summation bound of the exact sum of the observations its
/// count says it holds. `ts` are those observations in the accumulation space. Used for Paired
/// (accumulation space = differences, mean directly observable).
pub fn c08_after_refusal<M: Machine>(st: &M::S, ts: &[(f64, f64)], slot: u16, stats: &mut Stats) -> Option<Violation> {
    if ts.is_empty() || ts.iter().any(|t| !t.0.is_finite() || !t.1.is_finite()) {
        return None;
    }
    let mut agg = crate::exact::Agg::new();
    for &(t, sq) in ts {
        agg.push(t, sq);
    }
    let sm = agg.summary();
    let o = M::observe(st, ObsPlan { confs: &[], unguarded: false });
    let u = M::unit_roundoff();
    let n = sm.n as f64;
    let mean = obs_get(&o, What::Mean(0))?.as_f()?;
    stats.inc("c08_after_refusal_checks");
    if !(sm.a_f > 0.0) {
        return None;
    }
    let sum = mean * n;
    if !sum.is_finite() {
        return Some(Violation::new("C08", "stat-sum-error-bound-after-refused-call", slot, format!("mean {mean:?} of {} finite observations", sm.n)));
    }
    let diff = (crate::exact::f64_to_big_checked(sum)? - &sm.s).magnitude().clone();
    let r = crate::exact::ratio(&diff.into(), &sm.a) / u;
    let floor = 4.0 * eta::<M>() * n / (u * sm.a_f);
    let bound = K + 4.0 * n * u + 2.0 + floor;
    stats.worst("c08_after_refusal_mean_times_n_over_uA", r);
    if r > bound {
        return Some(Violation::new(
            "C08",
            "stat-sum-error-bound-after-refused-call",
            slot,
            format!("|mean*n - exact sum| = {:.3} u*sum|x| > {:.3} over the {} observations the state reports (exact sum {:?}, sum|x| {:?}, state {})", r, bound, sm.n, sm.s_f, sm.a_f, M::fingerprint(st)),
        ));
    }
    None
}
