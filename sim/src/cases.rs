//! Fault configuration, part 1: stream-seam fault *cases* against every interval-computing entry
//! point (C11), enumerated exhaustively for short streams: entry point x fault kind x position x
//! confidence. A case is a complete, PRNG-free description (the records after the fault has been
//! applied, the counters, the quantile, the confidence), so replaying it is a pure function of
//! the case and the code. The oracle classifies the *actual* input (not the injection label), so
//! it stays valid under minimisation.

use crate::machines::*;
use crate::oracle::Violation;
use crate::rng::{mix, Rng};
use serde_json::{json, Value};
use stats_ci::comparison::{Paired, Unpaired};
use stats_ci::mean::{Arithmetic, Geometric, Harmonic, MeanCI, StatisticsOps};
use stats_ci::{proportion, quantile};

#[derive(Clone, Copy, Debug, PartialEq, Eq, PartialOrd, Ord)]
pub enum Entry {
    // ---- mean one-shots (stream a)
    ArithCi,
    ArithCiTrait,
    ArithMeanCiTrait,
    GeoCi,
    GeoCiTrait,
    HarmCi,
    HarmMeanCiTrait,
    // ---- mean incremental: deliver stream a with `style`, then ci_mean
    ArithInc,
    GeoInc,
    HarmInc,
    // ---- comparisons (streams a and b)
    PairedCi,
    PairedInc,
    PairedTuple,
    UnpairedCi,
    UnpairedInc,
    // ---- very large populations reached by merging a state with copies of itself `n` times
    ArithHuge,
    GeoHuge,
    HarmHuge,
    PairedHuge,
    UnpairedHuge,
    // ---- proportions (n, k [, rate in q])
    PropCi,
    PropWilson,
    PropZNormal,
    PropWilsonRatio,
    PropCiTrue,
    PropCiIf,
    PropStatsCi,
    PropIsSignificant,
    // ---- quantiles (stream a as data or n as length, quantile q)
    QuantCi,
    QuantSorted,
    QuantMaxSize8,
    QuantMaxSize1024,
    QuantIndices,
    QuantStatsCi,
}

pub const ALL_ENTRIES: [Entry; 34] = [
    Entry::ArithCi,
    Entry::ArithCiTrait,
    Entry::ArithMeanCiTrait,
    Entry::GeoCi,
    Entry::GeoCiTrait,
    Entry::HarmCi,
    Entry::HarmMeanCiTrait,
    Entry::ArithInc,
    Entry::GeoInc,
    Entry::HarmInc,
    Entry::PairedCi,
    Entry::PairedInc,
    Entry::PairedTuple,
    Entry::UnpairedCi,
    Entry::UnpairedInc,
    Entry::ArithHuge,
    Entry::GeoHuge,
    Entry::HarmHuge,
    Entry::PairedHuge,
    Entry::UnpairedHuge,
    Entry::PropCi,
    Entry::PropWilson,
    Entry::PropZNormal,
    Entry::PropWilsonRatio,
    Entry::PropCiTrue,
    Entry::PropCiIf,
    Entry::PropStatsCi,
    Entry::PropIsSignificant,
    Entry::QuantCi,
    Entry::QuantSorted,
    Entry::QuantMaxSize8,
    Entry::QuantMaxSize1024,
    Entry::QuantIndices,
    Entry::QuantStatsCi,
];

impl Entry {
    pub fn name(&self) -> &'static str {
        match self {
            Entry::ArithCi => "mean::Arithmetic::ci",
            Entry::ArithCiTrait => "StatisticsOps::ci(Arithmetic)",
            Entry::ArithMeanCiTrait => "MeanCI::ci(Arithmetic)",
            Entry::GeoCi => "mean::Geometric::ci",
            Entry::GeoCiTrait => "StatisticsOps::ci(Geometric)",
            Entry::HarmCi => "mean::Harmonic::ci",
            Entry::HarmMeanCiTrait => "MeanCI::ci(Harmonic)",
            Entry::ArithInc => "Arithmetic::extend+ci_mean",
            Entry::GeoInc => "Geometric::extend+ci_mean",
            Entry::HarmInc => "Harmonic::extend+ci_mean",
            Entry::PairedCi => "comparison::Paired::ci",
            Entry::PairedInc => "Paired::extend+ci_mean",
            Entry::PairedTuple => "Paired::extend_tuple+ci_mean",
            Entry::UnpairedCi => "comparison::Unpaired::ci",
            Entry::UnpairedInc => "Unpaired::extend_a/b+ci_mean",
            Entry::ArithHuge => "Arithmetic self-merged 2^k times+ci_mean",
            Entry::GeoHuge => "Geometric self-merged 2^k times+ci_mean",
            Entry::HarmHuge => "Harmonic self-merged 2^k times+ci_mean",
            Entry::PairedHuge => "Paired self-merged 2^k times+ci_mean",
            Entry::UnpairedHuge => "Unpaired self-merged 2^k times+ci_mean",
            Entry::PropCi => "proportion::ci",
            Entry::PropWilson => "proportion::ci_wilson",
            Entry::PropZNormal => "proportion::ci_z_normal",
            Entry::PropWilsonRatio => "proportion::ci_wilson_ratio",
            Entry::PropCiTrue => "proportion::ci_true",
            Entry::PropCiIf => "proportion::ci_if",
            Entry::PropStatsCi => "proportion::Stats::ci",
            Entry::PropIsSignificant => "proportion::is_significant",
            Entry::QuantCi => "quantile::ci",
            Entry::QuantSorted => "quantile::ci_sorted_unchecked",
            Entry::QuantMaxSize8 => "quantile::ci_max_size<8>",
            Entry::QuantMaxSize1024 => "quantile::ci_max_size<1024>",
            Entry::QuantIndices => "quantile::ci_indices",
            Entry::QuantStatsCi => "quantile::Stats::ci",
        }
    }
    pub fn from_name(s: &str) -> Option<Entry> {
        ALL_ENTRIES.iter().copied().find(|e| e.name() == s)
    }
    fn group(&self) -> Group {
        use Entry::*;
        match self {
            ArithCi | ArithCiTrait | ArithMeanCiTrait | ArithInc => Group::Mean(Transform::Id),
            GeoCi | GeoCiTrait | GeoInc => Group::Mean(Transform::Ln),
            HarmCi | HarmMeanCiTrait | HarmInc => Group::Mean(Transform::Recip),
            PairedCi | PairedInc | PairedTuple => Group::Paired,
            UnpairedCi | UnpairedInc => Group::Unpaired,
            ArithHuge | GeoHuge | HarmHuge | PairedHuge | UnpairedHuge => Group::Huge,
            PropCi | PropWilson | PropZNormal | PropWilsonRatio | PropCiTrue | PropCiIf | PropStatsCi | PropIsSignificant => Group::Prop,
            QuantCi | QuantSorted | QuantMaxSize8 | QuantMaxSize1024 | QuantIndices | QuantStatsCi => Group::Quant,
        }
    }
    fn one_shot(&self) -> bool {
        !matches!(
            self,
            Entry::ArithInc | Entry::GeoInc | Entry::HarmInc | Entry::PairedInc | Entry::PairedTuple | Entry::UnpairedInc | Entry::ArithHuge | Entry::GeoHuge | Entry::HarmHuge | Entry::PairedHuge | Entry::UnpairedHuge
        )
    }
}

#[derive(Clone, Copy, Debug, PartialEq, Eq)]
pub enum Group {
    Huge,
    Mean(Transform),
    Paired,
    Unpaired,
    Prop,
    Quant,
}

#[derive(Clone, Debug, PartialEq)]
pub struct Case {
    pub entry: Entry,
    pub flt: Flt,
    pub a: Vec<Bits>,
    pub b: Vec<Bits>,
    pub n: u64,
    pub k: u64,
    /// quantile (quantile entries) or success rate (ci_wilson_ratio), f64 bits
    pub q: u64,
    pub conf: u8,
    pub style: u8,
    /// informational: what the chaos task did to an otherwise valid stream
    pub fault: String,
    pub pos: u32,
}

impl Case {
    pub fn to_json(&self) -> Value {
        json!({
            "entry": self.entry.name(),
            "flt": match self.flt { Flt::F32 => "f32", Flt::F64 => "f64", Flt::Int => "int" },
            "a": self.a.iter().map(|b| format!("{:x}", b)).collect::<Vec<_>>(),
            "b": self.b.iter().map(|b| format!("{:x}", b)).collect::<Vec<_>>(),
            "a_decoded": self.a.iter().map(|&b| format!("{:?}", crate::tape::decode(b, self.flt))).collect::<Vec<_>>(),
            "b_decoded": self.b.iter().map(|&b| format!("{:?}", crate::tape::decode(b, self.flt))).collect::<Vec<_>>(),
            "n": self.n, "k": self.k, "q": format!("{:x}", self.q), "q_decoded": format!("{:?}", f64::from_bits(self.q)),
            "conf": self.conf, "conf_decoded": conf_name(self.conf), "style": self.style,
            "fault": self.fault, "pos": self.pos,
        })
    }
    pub fn from_json(v: &Value) -> Result<Case, String> {
        let hexv = |k: &str| -> Result<Vec<Bits>, String> {
            let mut out = Vec::new();
            for x in v.get(k).and_then(|x| x.as_array()).ok_or(format!("case field {k}"))? {
                out.push(u64::from_str_radix(x.as_str().ok_or("hex")?, 16).map_err(|e| e.to_string())?);
            }
            Ok(out)
        };
        Ok(Case {
            entry: Entry::from_name(v["entry"].as_str().ok_or("entry")?).ok_or("unknown entry")?,
            flt: match v["flt"].as_str().ok_or("flt")? {
                "f32" => Flt::F32,
                "f64" => Flt::F64,
                _ => Flt::Int,
            },
            a: hexv("a")?,
            b: hexv("b")?,
            n: v["n"].as_u64().ok_or("n")?,
            k: v["k"].as_u64().ok_or("k")?,
            q: u64::from_str_radix(v["q"].as_str().ok_or("q")?, 16).map_err(|e| e.to_string())?,
            conf: v["conf"].as_u64().ok_or("conf")? as u8,
            style: v["style"].as_u64().ok_or("style")? as u8,
            fault: v["fault"].as_str().unwrap_or("").to_string(),
            pos: v["pos"].as_u64().unwrap_or(0) as u32,
        })
    }
}

// ------------------------------------------------------------------------------------------
// execution
// ------------------------------------------------------------------------------------------

/// What the library answered.
#[derive(Clone, Debug, PartialEq)]
pub struct CaseOut {
    /// outcome of the feeding step for incremental entries
    pub fed: Option<Out<()>>,
    /// sample counts reported after feeding (incremental entries)
    pub counts: Vec<u64>,
    pub ci: Out<Iv>,
    /// proportion::is_significant outcome
    pub flag: Option<Result<bool, String>>,
}

fn vf<F: Fl>(r: &[Bits]) -> Vec<F> {
    r.iter().map(|&b| F::from_bits64(b)).collect()
}

fn feed_ops<F: Fl, T: StatisticsOps<F>>(s: &mut T, style: u8, xs: &[F]) -> Result<(), stats_ci::error::CIError> {
    match style % 3 {
        0 => s.extend(&xs.to_vec()),
        1 => {
            for &x in xs {
                s.append(x)?;
            }
            Ok(())
        }
        _ => {
            // two chunks
            let h = xs.len() / 2;
            s.extend(&xs[..h].to_vec())?;
            s.extend(&xs[h..].to_vec())
        }
    }
}

pub fn run_case_f<F: Fl>(c: &Case) -> CaseOut {
    let a: Vec<F> = vf(&c.a);
    let b: Vec<F> = vf(&c.b);
    let cf = conf(c.conf);
    let q = f64::from_bits(c.q);
    let n = c.n as usize;
    let k = c.k as usize;
    let mut fed = None;
    let mut counts = vec![];
    let mut flag = None;
    use Entry::*;
    let ci: Out<Iv> = match c.entry {
        ArithCi => call(|| Arithmetic::<F>::ci(cf, &a), |i| iv_f(&i)),
        ArithCiTrait => call(|| <Arithmetic<F> as StatisticsOps<F>>::ci(cf, &a), |i| iv_f(&i)),
        ArithMeanCiTrait => call(|| <Arithmetic<F> as MeanCI<F>>::ci(cf, &a), |i| iv_f(&i)),
        GeoCi => call(|| Geometric::<F>::ci(cf, &a), |i| iv_f(&i)),
        GeoCiTrait => call(|| <Geometric<F> as StatisticsOps<F>>::ci(cf, &a), |i| iv_f(&i)),
        HarmCi => call(|| Harmonic::<F>::ci(cf, &a), |i| iv_f(&i)),
        HarmMeanCiTrait => call(|| <Harmonic<F> as MeanCI<F>>::ci(cf, &a), |i| iv_f(&i)),
        ArithInc => {
            let mut s = Arithmetic::<F>::new();
            fed = Some(call(|| feed_ops(&mut s, c.style, &a), |_| ()));
            counts = vec![s.sample_count() as u64];
            call(|| s.ci_mean(cf), |i| iv_f(&i))
        }
        GeoInc => {
            let mut s = Geometric::<F>::new();
            fed = Some(call(|| feed_ops(&mut s, c.style, &a), |_| ()));
            counts = vec![s.sample_count() as u64];
            call(|| s.ci_mean(cf), |i| iv_f(&i))
        }
        HarmInc => {
            let mut s = Harmonic::<F>::new();
            fed = Some(call(|| feed_ops(&mut s, c.style, &a), |_| ()));
            counts = vec![s.sample_count() as u64];
            call(|| s.ci_mean(cf), |i| iv_f(&i))
        }
        PairedCi => call(|| Paired::<F>::ci(cf, &a, &b), |i| iv_f(&i)),
        PairedInc => {
            let mut s = Paired::<F>::default();
            fed = Some(call(|| s.extend(&a, &b), |_| ()));
            counts = vec![s.sample_count() as u64];
            call(|| s.ci_mean(cf), |i| iv_f(&i))
        }
        PairedTuple => {
            let mut s = Paired::<F>::default();
            let t: Vec<(F, F)> = a.iter().copied().zip(b.iter().copied()).collect();
            fed = Some(call(
                || {
                    if c.style % 2 == 0 {
                        s.extend_tuple(&t)
                    } else {
                        for &(x, y) in &t {
                            s.append_pair(x, y)?;
                        }
                        Ok(())
                    }
                },
                |_| (),
            ));
            counts = vec![s.sample_count() as u64];
            call(|| s.ci_mean(cf), |i| iv_f(&i))
        }
        UnpairedCi => call(|| Unpaired::<F>::ci(cf, &a, &b), |i| iv_f(&i)),
        UnpairedInc => {
            let mut s = Unpaired::<F>::default();
            fed = Some(call(
                || match c.style % 3 {
                    0 => {
                        s.extend_a(&a)?;
                        s.extend_b(&b)
                    }
                    1 => s.extend(&a, &b),
                    _ => {
                        for &x in &a {
                            s.append_a(x)?;
                        }
                        for &y in &b {
                            s.append_b(y)?;
                        }
                        Ok(())
                    }
                },
                |_| (),
            ));
            counts = vec![s.stats_a().sample_count() as u64, s.stats_b().sample_count() as u64];
            call(|| s.ci_mean(cf), |i| iv_f(&i))
        }
        ArithHuge => {
            let mut s = Arithmetic::<F>::new();
            fed = Some(call(|| s.extend(&a), |_| ()));
            for i in 0..c.n {
                s = if i % 2 == 0 { s + s } else { let mut t = s; t += s; t };
            }
            counts = vec![s.sample_count() as u64];
            call(|| s.ci_mean(cf), |i| iv_f(&i))
        }
        GeoHuge => {
            let mut s = Geometric::<F>::new();
            fed = Some(call(|| s.extend(&a), |_| ()));
            for i in 0..c.n {
                s = if i % 2 == 0 { s + s } else { let mut t = s; t += s; t };
            }
            counts = vec![s.sample_count() as u64];
            call(|| s.ci_mean(cf), |i| iv_f(&i))
        }
        HarmHuge => {
            let mut s = Harmonic::<F>::new();
            fed = Some(call(|| s.extend(&a), |_| ()));
            for i in 0..c.n {
                s = if i % 2 == 0 { s + s } else { let mut t = s; t += s; t };
            }
            counts = vec![s.sample_count() as u64];
            call(|| s.ci_mean(cf), |i| iv_f(&i))
        }
        PairedHuge => {
            let mut s = Paired::<F>::default();
            fed = Some(call(|| s.extend(&a, &b), |_| ()));
            for i in 0..c.n {
                s = if i % 2 == 0 { s.clone() + s } else { let mut t = s.clone(); t += s; t };
            }
            counts = vec![s.sample_count() as u64];
            call(|| s.ci_mean(cf), |i| iv_f(&i))
        }
        UnpairedHuge => {
            let mut s = Unpaired::<F>::default();
            fed = Some(call(|| s.extend(&a, &b), |_| ()));
            for i in 0..c.n {
                s = if i % 2 == 0 { s.clone() + s } else { let mut t = s.clone(); t += s; t };
            }
            counts = vec![s.stats_a().sample_count() as u64, s.stats_b().sample_count() as u64];
            call(|| s.ci_mean(cf), |i| iv_f(&i))
        }
        PropCi => call(|| proportion::ci(cf, n, k), |i| iv_f(&i)),
        PropWilson => call(|| proportion::ci_wilson(cf, n, k), |i| iv_f(&i)),
        PropZNormal => call(|| proportion::ci_z_normal(cf, n, k), |i| iv_f(&i)),
        PropWilsonRatio => call(|| proportion::ci_wilson_ratio(cf, n, q), |i| iv_f(&i)),
        PropCiTrue => {
            let bs: Vec<bool> = (0..n).map(|i| i < k).collect();
            call(|| proportion::ci_true(cf, &bs), |i| iv_f(&i))
        }
        PropCiIf => {
            let xs: Vec<u64> = (0..c.n).collect();
            call(|| proportion::ci_if(cf, &xs, |&x| x < c.k), |i| iv_f(&i))
        }
        PropStatsCi => {
            // the state is built by counting, never by Stats::new (whose k > n panic is documented)
            let mut s = proportion::Stats::default();
            for i in 0..n {
                if i < k {
                    s.add_success()
                } else {
                    s.add_failure()
                }
            }
            flag = Some(guard(|| s.is_significant()));
            call(|| s.ci(cf), |i| iv_f(&i))
        }
        PropIsSignificant => {
            flag = Some(guard(|| proportion::is_significant(n, k)));
            Out::Err(ErrV::Other("n/a".into()))
        }
        QuantCi => call(|| quantile::ci(cf, &a, q), |i| iv_f(&i)),
        QuantSorted => {
            let mut s = a.clone();
            s.sort_by(|x, y| x.partial_cmp(y).unwrap_or(std::cmp::Ordering::Equal));
            call(|| quantile::ci_sorted_unchecked(cf, &s, q), |i| iv_f(&i))
        }
        QuantMaxSize8 => call(|| quantile::ci_max_size::<F, _, 8>(cf, &a, q), |i| iv_f(&i)),
        QuantMaxSize1024 => call(|| quantile::ci_max_size::<F, _, 1024>(cf, &a, q), |i| iv_f(&i)),
        QuantIndices => call(|| quantile::ci_indices(cf, n, q), |i| iv_u(&i)),
        QuantStatsCi => {
            let mut s = quantile::Stats::default();
            s += quantile::Stats::new(n / 2);
            s = s + quantile::Stats::new(n - n / 2);
            call(|| s.ci(cf, q), |i| iv_u(&i))
        }
    };
    CaseOut { fed, counts, ci, flag }
}

pub fn run_case(c: &Case) -> CaseOut {
    match c.flt {
        Flt::F32 => run_case_f::<f32>(c),
        _ => run_case_f::<f64>(c),
    }
}

// ------------------------------------------------------------------------------------------
// classification of the actual input and the oracle
// ------------------------------------------------------------------------------------------

#[derive(Clone, Debug, Default)]
pub struct Facts {
    pub n: usize,
    /// a record that is itself NaN or infinite was accepted into the accumulation
    pub nonfinite: bool,
    /// numerically extreme but valid: any Err or a valid Ok is acceptable
    pub degenerate: bool,
}

fn fmax(flt: Flt) -> f64 {
    match flt {
        Flt::F32 => f32::MAX as f64,
        _ => f64::MAX,
    }
}
fn fminpos(flt: Flt) -> f64 {
    match flt {
        Flt::F32 => f32::MIN_POSITIVE as f64,
        _ => f64::MIN_POSITIVE,
    }
}

/// value in accumulation space computed in the element type
/// a record that a library may refuse already when it is fed (with any error variant) instead of
/// reporting it at the next query: NaN / infinite, or finite with a value in the accumulation space
/// - or its square, which the state must hold - that is not finite in the element type
fn rejectable_at_the_door(flt: Flt, tr: Transform, b: Bits) -> bool {
    if is_nonfinite(flt, b) {
        return true;
    }
    let t = tval(flt, tr, crate::tape::decode(b, flt));
    let sq = match flt {
        Flt::F32 => ((t as f32) * (t as f32)) as f64,
        _ => t * t,
    };
    !t.is_finite() || !sq.is_finite()
}

fn tval(flt: Flt, tr: Transform, x: f64) -> f64 {
    match (flt, tr) {
        (Flt::F32, Transform::Ln) => (x as f32).ln() as f64,
        (Flt::F32, Transform::Recip) => (1.0f32 / x as f32) as f64,
        (_, Transform::Ln) => x.ln(),
        (_, Transform::Recip) => 1.0 / x,
        _ => x,
    }
}

/// facts about a stream of accumulation-space values whose raw records were `raw`
pub fn facts_of(flt: Flt, raw_nonfinite: bool, ts: &[f64]) -> Facts {
    let mut f = Facts { n: ts.len(), nonfinite: raw_nonfinite, degenerate: false };
    let max = fmax(flt);
    let minp = fminpos(flt);
    let mut sa = 0.0f64;
    let mut sq = 0.0f64;
    for &t in ts {
        if !t.is_finite() {
            if !raw_nonfinite {
                f.degenerate = true;
            }
            continue;
        }
        sa += t.abs() / 8.0;
        sq += (t / 8.0) * (t / 8.0) / 8.0; // scaled to avoid f64 overflow for f64::MAX inputs
        if t != 0.0 && t.abs() < minp.sqrt() * 1e3 {
            f.degenerate = true; // squares underflow
        }
    }
    if sa >= max / 64.0 || sq >= max / 4096.0 {
        f.degenerate = true;
    }
    // (near-)constant data: variance is at or below the rounding noise of the sums
    if ts.len() >= 2 && ts.iter().all(|t| t.is_finite()) {
        let n = ts.len() as f64;
        let mean = ts.iter().sum::<f64>() / n;
        let var = ts.iter().map(|t| (t - mean) * (t - mean)).sum::<f64>() / (n - 1.0);
        let q = ts.iter().map(|t| t * t).sum::<f64>() / (n - 1.0);
        let u = match flt {
            Flt::F32 => f32::EPSILON as f64,
            _ => f64::EPSILON,
        };
        if !(var > 4096.0 * u * q) {
            f.degenerate = true;
        }
    }
    f
}

fn is_nonfinite(flt: Flt, b: Bits) -> bool {
    !crate::tape::decode(b, flt).is_finite()
}

#[derive(Clone, Debug, PartialEq)]
pub enum Expect {
    TooFew(Vec<usize>),
    InvalidInput,
    NonPositive(f64),
    DifferentSizes(usize, usize),
    InvalidSuccesses(usize, usize),
    TooFewSuccesses(usize, usize),
    TooFewFailures(usize, usize),
    InvalidQuantile(f64),
    /// some error, variant unspecified by the documentation
    AnyErr,
    /// NonPositiveValue with whatever payload
    AnyNonPositive,
}

fn matches_expect(e: &ErrV, x: &Expect, payload: bool) -> bool {
    match (e, x) {
        (ErrV::TooFewSamples(n), Expect::TooFew(ns)) => !payload || ns.contains(n),
        (ErrV::InvalidInputData, Expect::InvalidInput) => true,
        (ErrV::NonPositiveValue(v), Expect::NonPositive(w)) => !payload || v.to_bits() == w.to_bits() || (v.is_nan() && w.is_nan()),
        (ErrV::DifferentSampleSizes(a, b), Expect::DifferentSizes(x, y)) => !payload || (a == x && b == y),
        (ErrV::InvalidSuccesses(k, n), Expect::InvalidSuccesses(x, y)) => !payload || (k == x && n == y),
        (ErrV::TooFewSuccesses(k, n, _), Expect::TooFewSuccesses(x, y)) => !payload || (k == x && n == y),
        (ErrV::TooFewFailures(f, n, _), Expect::TooFewFailures(x, y)) => !payload || (f == x && n == y),
        (ErrV::InvalidQuantile(q), Expect::InvalidQuantile(w)) => !payload || q.to_bits() == w.to_bits() || (q.is_nan() && w.is_nan()),
        (_, Expect::AnyErr) => true,
        (ErrV::NonPositiveValue(_), Expect::AnyNonPositive) => true,
        _ => false,
    }
}

fn expect_name(x: &Expect) -> String {
    match x {
        Expect::TooFew(ns) => format!("TooFewSamples({:?})", ns),
        Expect::InvalidInput => "InvalidInputData".into(),
        Expect::NonPositive(v) => format!("NonPositiveValue({:?})", v),
        Expect::DifferentSizes(a, b) => format!("DifferentSampleSizes({a}, {b})"),
        Expect::InvalidSuccesses(k, n) => format!("InvalidSuccesses({k}, {n})"),
        Expect::TooFewSuccesses(k, n) => format!("TooFewSuccesses({k}, {n}, _)"),
        Expect::TooFewFailures(f, n) => format!("TooFewFailures({f}, {n}, _)"),
        Expect::InvalidQuantile(q) => format!("InvalidQuantile({:?})", q),
        Expect::AnyErr => "any Err".into(),
        Expect::AnyNonPositive => "NonPositiveValue(_)".into(),
    }
}

/// class tag used in violation keys (stable under minimisation)
fn class_tag(xs: &[Expect]) -> String {
    if xs.is_empty() {
        return "valid-or-degenerate".into();
    }
    let mut t: Vec<&'static str> = xs
        .iter()
        .map(|x| match x {
            Expect::TooFew(_) => "too-few-samples",
            Expect::InvalidInput => "non-finite-observation",
            Expect::NonPositive(_) => "non-positive-observation",
            Expect::DifferentSizes(..) => "unequal-paired-lengths",
            Expect::InvalidSuccesses(..) => "successes-exceed-population",
            Expect::TooFewSuccesses(..) => "too-few-successes",
            Expect::TooFewFailures(..) => "too-few-failures",
            Expect::InvalidQuantile(_) => "quantile-outside-(0,1)",
            Expect::AnyErr => "invalid-argument",
            Expect::AnyNonPositive => "non-finite-observation",
        })
        .collect();
    t.sort();
    t.dedup();
    t.join("+")
}

/// The C11 verdict for one interval result.
///  * never a panic, unless `panic_allowed` (documented panics);
///  * an Ok has no NaN bound and low <= high;
///  * if invalid classes are present: an Err whose variant is one of theirs (payload checked
///    when exactly one class is present).
pub fn judge_ci(entry: &str, out: &Out<Iv>, expect: &[Expect], panic_allowed: bool, ctx: &str) -> Option<Violation> {
    let tag = class_tag(expect);
    match out {
        Out::Panic(p) => {
            if panic_allowed {
                None
            } else {
                Some(Violation::new("C11", &format!("{entry}/{tag}/panic"), 0, format!("{ctx}: panicked: {p}")))
            }
        }
        Out::Ok(iv) => {
            if iv.lo.is_nan() || iv.hi.is_nan() {
                return Some(Violation::new("C11", &format!("{entry}/{tag}/ok-with-nan-bound"), 0, format!("{ctx}: returned Ok({})", iv.render())));
            }
            if iv.lo > iv.hi {
                return Some(Violation::new("C11", &format!("{entry}/{tag}/ok-with-inverted-bounds"), 0, format!("{ctx}: returned Ok({})", iv.render())));
            }
            if !expect.is_empty() {
                return Some(Violation::new(
                    "C11",
                    &format!("{entry}/{tag}/ok-on-invalid-input"),
                    0,
                    format!("{ctx}: returned Ok({}) but the documented outcome is {}", iv.render(), expect.iter().map(expect_name).collect::<Vec<_>>().join(" or ")),
                ));
            }
            None
        }
        Out::Err(e) => {
            if expect.is_empty() {
                return None;
            }
            let payload = expect.len() == 1;
            if expect.iter().any(|x| matches_expect(e, x, payload)) {
                None
            } else {
                Some(Violation::new(
                    "C11",
                    &format!("{entry}/{tag}/wrong-error"),
                    0,
                    format!("{ctx}: returned Err({}) but the documented outcome is {}", e.render(), expect.iter().map(expect_name).collect::<Vec<_>>().join(" or ")),
                ))
            }
        }
    }
}

/// first record (in stream order) that a geometric/harmonic accumulator must reject
fn first_nonpositive(flt: Flt, recs: &[Bits]) -> Option<(usize, f64)> {
    recs.iter().enumerate().find_map(|(i, &b)| {
        let x = crate::tape::decode(b, flt);
        if x <= 0.0 {
            Some((i, x))
        } else {
            None
        }
    })
}

pub fn judge(c: &Case, o: &CaseOut) -> Vec<Violation> {
    let mut v = Vec::new();
    let name = c.entry.name();
    let ctx = format!("{}<{}> fault={} pos={} conf={} style={}", name, match c.flt { Flt::F32 => "f32", Flt::F64 => "f64", Flt::Int => "-" }, c.fault, c.pos, conf_name(c.conf), c.style);
    match c.entry.group() {
        Group::Huge => {
            // valid data replicated 2^k times is valid data: totality (no panic, no NaN, ordered
            // bounds) and exact counters
            if let Some(fed) = &o.fed {
                if !fed.is_ok() {
                    v.push(Violation::new("C11", &format!("{name}/valid-records-rejected"), 0, format!("{ctx}: feeding returned {}", render_fed(fed))));
                    return v;
                }
            }
            let mult = 1u64 << c.n.min(62);
            let want: Vec<u64> = if c.entry == Entry::UnpairedHuge { vec![c.a.len() as u64 * mult, c.b.len() as u64 * mult] } else { vec![c.a.len() as u64 * mult] };
            if o.counts != want {
                v.push(Violation::new("C09", &format!("{name}/count-after-self-merges"), 0, format!("{ctx}: {} self-merges of a state holding {:?} records: state reports {:?}, expected {:?}", c.n, c.a.len(), o.counts, want)));
            }
            if let Some(x) = judge_ci(name, &o.ci, &[], false, &format!("{ctx} after {} self-merges (count {:?})", c.n, want)) {
                v.push(x);
            }
        }
        Group::Mean(tr) => {
            let transformed = tr != Transform::Id;
            let np = if transformed { first_nonpositive(c.flt, &c.a) } else { None };
            // records that end up in the state
            let accepted: &[Bits] = match np {
                Some((i, _)) => &c.a[..i],
                None => &c.a[..],
            };
            if c.entry.one_shot() {
                let mut expect = Vec::new();
                if let Some((_, val)) = np {
                    expect.push(Expect::NonPositive(val));
                } else {
                    let raw_nf = accepted.iter().any(|&b| is_nonfinite(c.flt, b));
                    let ts: Vec<f64> = accepted.iter().map(|&b| tval(c.flt, tr, crate::tape::decode(b, c.flt))).collect();
                    let f = facts_of(c.flt, raw_nf, &ts);
                    expect = mean_expect(tr, &f, accepted, c.flt);
                }
                if let Some(x) = judge_ci(name, &o.ci, &expect, false, &ctx) {
                    v.push(x);
                }
            } else {
                // feeding step: C05's rejection clause + prefix semantics of extend
                let mut held_override: Option<usize> = None;
                if let Some(fed) = &o.fed {
                    match (np, fed) {
                        (Some((i, val)), Out::Err(ErrV::NonPositiveValue(w))) if w.to_bits() == val.to_bits() => {
                            // the state holds the records that precede the rejected one, or - if
                            // the failing `extend` call is atomic - those of the earlier calls only
                            let call_start = match c.style % 3 {
                                0 => 0,
                                1 => i,
                                _ => {
                                    let h = c.a.len() / 2;
                                    if i < h {
                                        0
                                    } else {
                                        h
                                    }
                                }
                            };
                            let got = o.counts.first().copied();
                            if got == Some(call_start as u64) && call_start != i {
                                held_override = Some(call_start);
                            }
                            if got != Some(i as u64) && got != Some(call_start as u64) {
                                v.push(Violation::new("C05", &format!("{name}/rejected-record-changed-the-count"), 0, format!("{ctx}: {} records precede the rejected one but the state reports {:?}", i, o.counts)));
                            }
                        }
                        (Some((_, val)), other) => v.push(Violation::new(
                            "C11",
                            &format!("{name}/non-positive-observation/{}", if other.is_panic() { "panic" } else if other.is_ok() { "accepted" } else { "wrong-error" }),
                            0,
                            format!("{ctx}: feeding returned {} but the documented outcome is NonPositiveValue({:?})", render_fed(other), val),
                        )),
                        (None, Out::Ok(())) => {
                            if o.counts.first().copied() != Some(c.a.len() as u64) {
                                v.push(Violation::new("C11", &format!("{name}/count-after-feeding"), 0, format!("{ctx}: fed {} records, state reports {:?}", c.a.len(), o.counts)));
                            }
                        }
                        (None, Out::Err(_)) if accepted.iter().any(|&b| rejectable_at_the_door(c.flt, tr, b)) => {
                            // narrow relaxation: a NaN / infinite record may be rejected when it
                            // is fed (any variant) instead of being reported by the query; the
                            // state then holds the records that precede it
                            let i = accepted.iter().position(|&b| rejectable_at_the_door(c.flt, tr, b)).unwrap();
                            if o.counts.first().copied() != Some(i as u64) {
                                v.push(Violation::new("C11", &format!("{name}/state-after-rejected-non-finite-record"), 0, format!("{ctx}: {} records precede the rejected one but the state reports {:?}", i, o.counts)));
                            }
                            let ts: Vec<f64> = accepted[..i].iter().map(|&b| tval(c.flt, tr, crate::tape::decode(b, c.flt))).collect();
                            let f = facts_of(c.flt, false, &ts);
                            let expect = mean_expect(tr, &f, &accepted[..i], c.flt);
                            if let Some(x) = judge_ci(name, &o.ci, &expect, false, &ctx) {
                                v.push(x);
                            }
                            return v;
                        }
                        (None, other) => v.push(Violation::new(
                            "C11",
                            &format!("{name}/valid-records-rejected/{}", if other.is_panic() { "panic" } else { "error" }),
                            0,
                            format!("{ctx}: feeding returned {}", render_fed(other)),
                        )),
                    }
                }
                let accepted: &[Bits] = match held_override {
                    Some(h) => &c.a[..h],
                    None => accepted,
                };
                let raw_nf = accepted.iter().any(|&b| is_nonfinite(c.flt, b));
                let ts: Vec<f64> = accepted.iter().map(|&b| tval(c.flt, tr, crate::tape::decode(b, c.flt))).collect();
                let f = facts_of(c.flt, raw_nf, &ts);
                let expect = mean_expect(tr, &f, accepted, c.flt);
                if let Some(x) = judge_ci(name, &o.ci, &expect, false, &ctx) {
                    v.push(x);
                }
            }
        }
        Group::Paired => {
            let (la, lb) = (c.a.len(), c.b.len());
            let common = la.min(lb);
            let mut expect = Vec::new();
            let lengths_matter = !matches!(c.entry, Entry::PairedTuple);
            let mismatch = la != lb && lengths_matter;
            if mismatch {
                expect.push(Expect::DifferentSizes(la, lb));
            }
            // the state holds the common prefix (the tuple styles zip, the extend absorbs it)
            let raw_nf = (0..common).any(|i| is_nonfinite(c.flt, c.a[i]) || is_nonfinite(c.flt, c.b[i]));
            let ts: Vec<f64> = (0..common)
                .map(|i| match c.flt {
                    Flt::F32 => (crate::tape::decode(c.a[i], c.flt) as f32 - crate::tape::decode(c.b[i], c.flt) as f32) as f64,
                    _ => crate::tape::decode(c.a[i], c.flt) - crate::tape::decode(c.b[i], c.flt),
                })
                .collect();
            let f = facts_of(c.flt, raw_nf, &ts);
            if c.entry == Entry::PairedCi {
                if !mismatch {
                    expect = mean_expect(Transform::Diff, &f, &[], c.flt);
                }
                if let Some(x) = judge_ci(name, &o.ci, &expect, false, &ctx) {
                    v.push(x);
                }
            } else {
                if let Some(fed) = &o.fed {
                    if mismatch {
                        match fed {
                            Out::Err(ErrV::DifferentSampleSizes(x, y)) if *x == la && *y == lb => {}
                            other => v.push(Violation::new(
                                "C11",
                                &format!("{name}/unequal-paired-lengths/{}", if other.is_panic() { "panic" } else if other.is_ok() { "accepted" } else { "wrong-error" }),
                                0,
                                format!("{ctx}: feeding streams of lengths {la} and {lb} returned {} but the documented outcome is DifferentSampleSizes({la}, {lb})", render_fed(other)),
                            )),
                        }
                        // narrow relaxation: the state may hold nothing or the common prefix
                        let cnt = o.counts.first().copied().unwrap_or(u64::MAX);
                        if cnt != 0 && cnt != common as u64 {
                            v.push(Violation::new("C11", &format!("{name}/state-after-failed-extend"), 0, format!("{ctx}: after the failed extend the state reports {cnt} pairs (common prefix is {common})")));
                        }
                    } else if matches!(fed, Out::Err(_))
                        && (raw_nf
                            || ts.iter().any(|&d| {
                                let sq = match c.flt {
                                    Flt::F32 => ((d as f32) * (d as f32)) as f64,
                                    _ => d * d,
                                };
                                !d.is_finite() || !sq.is_finite()
                            }))
                    {
                        // narrow relaxation: a non-finite record rejected when it is fed
                        return v;
                    } else if !fed.is_ok() {
                        v.push(Violation::new("C11", &format!("{name}/valid-records-rejected"), 0, format!("{ctx}: feeding returned {}", render_fed(fed))));
                    }
                }
                // the query afterwards is judged against whatever the state reports it holds
                let cnt = o.counts.first().copied().unwrap_or(0) as usize;
                let held = cnt.min(common);
                let f2 = facts_of(c.flt, (0..held).any(|i| is_nonfinite(c.flt, c.a[i]) || is_nonfinite(c.flt, c.b[i])), &ts[..held]);
                let expect2 = mean_expect(Transform::Diff, &f2, &[], c.flt);
                if let Some(x) = judge_ci(name, &o.ci, &expect2, false, &ctx) {
                    v.push(x);
                }
            }
        }
        Group::Unpaired => {
            let fa = facts_of(c.flt, c.a.iter().any(|&b| is_nonfinite(c.flt, b)), &c.a.iter().map(|&b| crate::tape::decode(b, c.flt)).collect::<Vec<_>>());
            let fb = facts_of(c.flt, c.b.iter().any(|&b| is_nonfinite(c.flt, b)), &c.b.iter().map(|&b| crate::tape::decode(b, c.flt)).collect::<Vec<_>>());
            if let Some(fed) = &o.fed {
                if matches!(fed, Out::Err(_)) && (fa.nonfinite || fb.nonfinite || c.a.iter().chain(c.b.iter()).any(|&b| rejectable_at_the_door(c.flt, Transform::Id, b))) {
                    // narrow relaxation: a non-finite record rejected when it is fed
                    return v;
                } else if !fed.is_ok() {
                    v.push(Violation::new("C11", &format!("{name}/valid-records-rejected"), 0, format!("{ctx}: feeding returned {}", render_fed(fed))));
                } else if o.counts != vec![c.a.len() as u64, c.b.len() as u64] {
                    v.push(Violation::new("C11", &format!("{name}/count-after-feeding"), 0, format!("{ctx}: fed {}+{} records, state reports {:?}", c.a.len(), c.b.len(), o.counts)));
                }
            }
            let mut expect = Vec::new();
            let few: Vec<usize> = [fa.n, fb.n].into_iter().filter(|&n| n < 2).collect();
            if !few.is_empty() {
                expect.push(Expect::TooFew(few));
                if fa.degenerate || fb.degenerate {
                    // too few observations AND numerically extreme ones: several classes are
                    // present, any error will do (as for the one-sample intervals)
                    expect.push(Expect::AnyErr);
                }
            }
            if fa.nonfinite || fb.nonfinite {
                expect.push(Expect::InvalidInput);
            }
            if expect.is_empty() && (fa.degenerate || fb.degenerate) {
                // any Err or a valid Ok
            }
            if let Some(x) = judge_ci(name, &o.ci, &expect, false, &ctx) {
                v.push(x);
            }
        }
        Group::Prop => {
            let (n, k) = (c.n as usize, c.k as usize);
            if let Some(fl) = &o.flag {
                if let Err(p) = fl {
                    v.push(Violation::new("C11", &format!("{}/{}/panic", if c.entry == Entry::PropIsSignificant { name } else { "proportion::Stats::is_significant" }, if k > n { "successes-exceed-population" } else { "valid-or-degenerate" }), 0, format!("{ctx}: n={n} k={k}: panicked: {p}")));
                }
            }
            if c.entry == Entry::PropIsSignificant {
                return v;
            }
            let mut expect = Vec::new();
            if c.entry == Entry::PropWilsonRatio {
                let rate = f64::from_bits(c.q);
                if !(rate > 0.0 && rate <= 1.0) {
                    expect.push(Expect::AnyErr);
                } else {
                    // the library derives k from the rate; only totality is demanded
                }
            } else if matches!(c.entry, Entry::PropCiTrue | Entry::PropCiIf | Entry::PropStatsCi) && k > n {
                // front-ends that count cannot produce k > n: the case generator clamps, nothing to expect
            } else if k > n {
                expect.push(Expect::InvalidSuccesses(k, n));
            } else if c.entry == Entry::PropZNormal {
                // the normal approximation has its own (stricter) thresholds n*p >= 10 and
                // n*q >= 10, tested in that order: with fewer than 2 successes or failures one of
                // the two documented variants must come back; which one is its own business
                if k < 2 || n - k < 2 {
                    expect.push(Expect::TooFewSuccesses(k, n));
                    expect.push(Expect::TooFewFailures(n - k, n));
                }
            } else {
                if k < 2 {
                    expect.push(Expect::TooFewSuccesses(k, n));
                }
                if n - k < 2 {
                    expect.push(Expect::TooFewFailures(n - k, n));
                }
            }
            if let Some(x) = judge_ci(name, &o.ci, &expect, false, &format!("{ctx} n={n} k={k} q={:?}", f64::from_bits(c.q))) {
                v.push(x);
            }
        }
        Group::Quant => {
            let q = f64::from_bits(c.q);
            let uses_data = matches!(c.entry, Entry::QuantCi | Entry::QuantSorted | Entry::QuantMaxSize8 | Entry::QuantMaxSize1024);
            let n = if uses_data { c.a.len() } else { c.n as usize };
            let mut expect = Vec::new();
            if !(q > 0.0 && q < 1.0) {
                expect.push(Expect::InvalidQuantile(q));
            }
            if n < 4 {
                expect.push(Expect::TooFew(vec![n]));
            }
            // documented panics: incomparable elements while sorting; capacity overflow
            let has_nan = uses_data && c.a.iter().any(|&b| crate::tape::decode(b, c.flt).is_nan());
            let sorts = matches!(c.entry, Entry::QuantCi | Entry::QuantMaxSize8 | Entry::QuantMaxSize1024);
            let cap_over = (c.entry == Entry::QuantMaxSize8 && n > 8) || (c.entry == Entry::QuantMaxSize1024 && n > 1024);
            let panic_allowed = (sorts && has_nan && n >= 2) || cap_over;
            if c.entry == Entry::QuantSorted && has_nan {
                // precondition of ci_sorted_unchecked (sorted data) cannot hold with a NaN element
                return v;
            }
            if let Some(x) = judge_ci(name, &o.ci, &expect, panic_allowed, &format!("{ctx} n={n} q={:?}", q)) {
                v.push(x);
            }
        }
    }
    v
}

fn render_fed(o: &Out<()>) -> String {
    match o {
        Out::Ok(()) => "Ok(())".into(),
        Out::Err(e) => format!("Err({})", e.render()),
        Out::Panic(p) => format!("PANIC({p})"),
    }
}

/// expectations for a mean-type query given the facts about what the state holds
fn mean_expect(tr: Transform, f: &Facts, accepted: &[Bits], flt: Flt) -> Vec<Expect> {
    let mut expect = Vec::new();
    if f.n < 2 {
        expect.push(Expect::TooFew(vec![f.n]));
        if f.degenerate {
            // too few observations AND numerically extreme ones (a transform that overflows,
            // squares that under/overflow): several classes are present, any error will do
            expect.push(Expect::AnyErr);
        }
    }
    if f.nonfinite && !expect.is_empty() {
        // too few observations AND a non-finite one: whichever the library reports first
        expect.push(Expect::AnyErr);
    }
    if f.nonfinite {
        // Harmonic absorbs +inf as the finite reciprocal 0: any Err or a valid Ok (DESIGN 5.4 (4))
        let only_pos_inf_in_harmonic = tr == Transform::Recip
            && accepted.iter().all(|&b| {
                let x = crate::tape::decode(b, flt);
                x.is_finite() || x == f64::INFINITY
            });
        if !only_pos_inf_in_harmonic {
            expect.push(Expect::InvalidInput);
            if tr == Transform::Ln || tr == Transform::Recip {
                // "NonPositiveValue - if the input data is invalid (for harmonic/geometric means)"
                expect.push(Expect::AnyNonPositive);
            }
        }
    }
    expect
}

// ------------------------------------------------------------------------------------------
// enumeration
// ------------------------------------------------------------------------------------------

#[derive(Clone, Copy, Debug, PartialEq, Eq, PartialOrd, Ord)]
pub enum FaultKind {
    None,
    EarlyEof,
    Nan,
    PosInf,
    NegInf,
    Max,
    NegMax,
    MinPositive,
    Subnormal,
    SquareOverflow,
    SquareUnderflow,
    Zero,
    NegZero,
    Negative,
    NegSubnormal,
    Constant,
    DropA,
    DropB,
    DupA,
}

pub const VALUE_FAULTS: [FaultKind; 13] = [
    FaultKind::Nan,
    FaultKind::PosInf,
    FaultKind::NegInf,
    FaultKind::Max,
    FaultKind::NegMax,
    FaultKind::MinPositive,
    FaultKind::Subnormal,
    FaultKind::SquareOverflow,
    FaultKind::SquareUnderflow,
    FaultKind::Zero,
    FaultKind::NegZero,
    FaultKind::Negative,
    FaultKind::NegSubnormal,
];

impl FaultKind {
    pub fn name(&self) -> &'static str {
        match self {
            FaultKind::None => "none",
            FaultKind::EarlyEof => "early-eof",
            FaultKind::Nan => "corrupt:NaN",
            FaultKind::PosInf => "corrupt:+inf",
            FaultKind::NegInf => "corrupt:-inf",
            FaultKind::Max => "corrupt:MAX",
            FaultKind::NegMax => "corrupt:-MAX",
            FaultKind::MinPositive => "corrupt:MIN_POSITIVE",
            FaultKind::Subnormal => "corrupt:subnormal",
            FaultKind::SquareOverflow => "corrupt:square-overflows",
            FaultKind::SquareUnderflow => "corrupt:square-underflows",
            FaultKind::Zero => "nonpositive:+0",
            FaultKind::NegZero => "nonpositive:-0",
            FaultKind::Negative => "nonpositive:negative",
            FaultKind::NegSubnormal => "nonpositive:-subnormal",
            FaultKind::Constant => "constant-stream",
            FaultKind::DropA => "desync:drop-a",
            FaultKind::DropB => "desync:drop-b",
            FaultKind::DupA => "desync:dup-a",
        }
    }
    pub fn value(&self, flt: Flt) -> f64 {
        let (max, minp, sub) = match flt {
            Flt::F32 => (f32::MAX as f64, f32::MIN_POSITIVE as f64, f32::from_bits(1) as f64),
            _ => (f64::MAX, f64::MIN_POSITIVE, f64::from_bits(1)),
        };
        match self {
            FaultKind::Nan => f64::NAN,
            FaultKind::PosInf => f64::INFINITY,
            FaultKind::NegInf => f64::NEG_INFINITY,
            FaultKind::Max => max,
            FaultKind::NegMax => -max,
            FaultKind::MinPositive => minp,
            FaultKind::Subnormal => sub * 3.0,
            FaultKind::SquareOverflow => max.sqrt() * 4.0,
            FaultKind::SquareUnderflow => minp.sqrt() / 1024.0,
            FaultKind::Zero => 0.0,
            FaultKind::NegZero => -0.0,
            FaultKind::Negative => -2.5,
            FaultKind::NegSubnormal => -sub,
            _ => 1.0,
        }
    }
}

fn encf(flt: Flt, x: f64) -> Bits {
    match flt {
        Flt::F32 => (x as f32).to_bits() as u64,
        _ => x.to_bits(),
    }
}

/// valid strictly positive background stream, seeded by the case coordinates
fn background(seed: u64, tag: u64, len: usize, flt: Flt) -> Vec<Bits> {
    let mut r = Rng::new(mix(seed, "bg", tag));
    (0..len).map(|_| encf(flt, 1.0 + (r.below(9000) as f64) / 1000.0)).collect()
}

/// confidences used by the exhaustive enumeration: three kinds x {0.001, 0.5, 0.95, 0.9999}
pub const ENUM_CONFS: [u8; 12] = [0, 1, 2, 9, 10, 11, 18, 19, 20, 27, 28, 29];

/// The exhaustive small-scope enumeration (streams of length <= `max_len`). Returns all cases;
/// the caller executes them in parallel. `seed` only selects the valid background values.
pub fn enumerate(seed: u64, max_len: usize) -> Vec<Case> {
    let mut out = Vec::new();
    let mean_entries = [
        Entry::ArithCi,
        Entry::ArithCiTrait,
        Entry::ArithMeanCiTrait,
        Entry::GeoCi,
        Entry::GeoCiTrait,
        Entry::HarmCi,
        Entry::HarmMeanCiTrait,
        Entry::ArithInc,
        Entry::GeoInc,
        Entry::HarmInc,
    ];
    let mut tag = 0u64;
    for flt in [Flt::F32, Flt::F64] {
        // ---- single-stream mean entries
        for &e in &mean_entries {
            let styles: &[u8] = if e.one_shot() { &[0] } else { &[0, 1, 2] };
            for len in 0..=max_len {
                for &style in styles {
                    for &cf in &ENUM_CONFS {
                        tag += 1;
                        let bg = background(seed, tag, len, flt);
                        // early EOF / no fault: the stream simply has `len` records
                        out.push(Case { entry: e, flt, a: bg.clone(), b: vec![], n: 0, k: 0, q: 0, conf: cf, style, fault: if len < 2 { "early-eof".into() } else { "none".into() }, pos: len as u32 });
                        // constant stream
                        if len >= 1 {
                            out.push(Case { entry: e, flt, a: vec![bg[0]; len], b: vec![], n: 0, k: 0, q: 0, conf: cf, style, fault: "constant-stream".into(), pos: 0 });
                        }
                        // one corrupt record at every position (replacing the record there)
                        for &fk in &VALUE_FAULTS {
                            for pos in 0..len {
                                let mut a = bg.clone();
                                a[pos] = encf(flt, fk.value(flt));
                                out.push(Case { entry: e, flt, a, b: vec![], n: 0, k: 0, q: 0, conf: cf, style, fault: fk.name().into(), pos: pos as u32 });
                            }
                        }
                    }
                }
            }
        }
        // ---- two-stream entries
        for &e in &[Entry::PairedCi, Entry::PairedInc, Entry::PairedTuple, Entry::UnpairedCi, Entry::UnpairedInc] {
            let styles: &[u8] = match e {
                Entry::PairedTuple => &[0, 1],
                Entry::UnpairedInc => &[0, 1, 2],
                _ => &[0],
            };
            for la in 0..=max_len.min(5) {
                for lb in 0..=max_len.min(5) {
                    // desynchronised pairs are all (la != lb) combinations; for the paired entries every
                    // combination is enumerated, for Unpaired unequal lengths are legal
                    for &style in styles {
                        for &cf in &[0u8, 18, 19, 20, 29] {
                            tag += 1;
                            let a = background(seed, tag, la, flt);
                            let b = background(seed, tag ^ 0x5555, lb, flt);
                            let fault = if la == lb { "none" } else if la < lb { "desync:drop-a" } else { "desync:drop-b" };
                            out.push(Case { entry: e, flt, a: a.clone(), b: b.clone(), n: 0, k: 0, q: 0, conf: cf, style, fault: fault.into(), pos: la.min(lb) as u32 });
                            if la == lb || matches!(e, Entry::UnpairedCi | Entry::UnpairedInc) {
                                // constant streams and one corrupt record on either side
                                if la >= 1 && lb >= 1 {
                                    out.push(Case { entry: e, flt, a: vec![a[0]; la], b: vec![a[0]; lb], n: 0, k: 0, q: 0, conf: cf, style, fault: "constant-stream".into(), pos: 0 });
                                    out.push(Case { entry: e, flt, a: vec![a[0]; la], b: b.clone(), n: 0, k: 0, q: 0, conf: cf, style, fault: "constant-stream(a)".into(), pos: 0 });
                                }
                                for &fk in &[FaultKind::Nan, FaultKind::PosInf, FaultKind::NegInf, FaultKind::Max, FaultKind::NegMax, FaultKind::SquareOverflow, FaultKind::SquareUnderflow, FaultKind::Zero] {
                                    for pos in 0..la {
                                        let mut a2 = a.clone();
                                        a2[pos] = encf(flt, fk.value(flt));
                                        out.push(Case { entry: e, flt, a: a2, b: b.clone(), n: 0, k: 0, q: 0, conf: cf, style, fault: format!("{}(a)", fk.name()), pos: pos as u32 });
                                    }
                                    for pos in 0..lb {
                                        let mut b2 = b.clone();
                                        b2[pos] = encf(flt, fk.value(flt));
                                        out.push(Case { entry: e, flt, a: a.clone(), b: b2, n: 0, k: 0, q: 0, conf: cf, style, fault: format!("{}(b)", fk.name()), pos: pos as u32 });
                                    }
                                }
                            }
                        }
                    }
                }
            }
        }
        // ---- quantiles over data
        let qs: [f64; 12] = [f64::NAN, -1.0, -0.0, 0.0, 5e-324, 1e-9, 0.25, 0.5, 0.999, 1.0 - f64::EPSILON / 2.0, 1.0, 1.5];
        for &e in &[Entry::QuantCi, Entry::QuantSorted, Entry::QuantMaxSize8, Entry::QuantMaxSize1024] {
            for len in 0..=(max_len + 4) {
                for &q in &qs {
                    for &cf in &ENUM_CONFS {
                        tag += 1;
                        let bg = background(seed, tag, len, flt);
                        out.push(Case { entry: e, flt, a: bg.clone(), b: vec![], n: 0, k: 0, q: q.to_bits(), conf: cf, style: 0, fault: if len < 4 { "early-eof".into() } else { "bad-query".into() }, pos: len as u32 });
                        if len >= 1 && cf == 18 {
                            out.push(Case { entry: e, flt, a: vec![bg[0]; len], b: vec![], n: 0, k: 0, q: q.to_bits(), conf: cf, style: 0, fault: "constant-stream".into(), pos: 0 });
                            for &fk in &[FaultKind::Nan, FaultKind::PosInf, FaultKind::NegInf, FaultKind::Max, FaultKind::Zero] {
                                for pos in 0..len {
                                    let mut a = bg.clone();
                                    a[pos] = encf(flt, fk.value(flt));
                                    out.push(Case { entry: e, flt, a, b: vec![], n: 0, k: 0, q: q.to_bits(), conf: cf, style: 0, fault: fk.name().into(), pos: pos as u32 });
                                }
                            }
                        }
                    }
                }
            }
        }
    }
    // ---- very large populations through self-merges (count = len * 2^k)
    for flt in [Flt::F32, Flt::F64] {
        for &e in &[Entry::ArithHuge, Entry::GeoHuge, Entry::HarmHuge, Entry::PairedHuge, Entry::UnpairedHuge] {
            for len in [2usize, 3, 5] {
                for k in [0u64, 1, 2, 8, 15, 16, 17, 30, 31, 32, 33, 40] {
                    for &cf in &[18u8, 19, 20, 29] {
                        tag += 1;
                        let a = background(seed, tag, len, flt);
                        let b = background(seed, tag ^ 0x7777, len, flt);
                        out.push(Case { entry: e, flt, a, b, n: k, k: 0, q: 0, conf: cf, style: 0, fault: "huge-population".into(), pos: k as u32 });
                    }
                }
            }
        }
    }
    // ---- the same with constant records (degenerate but valid: the standard error is exactly zero or
    // a rounding residue; the count crosses the Student-t -> normal switch at 100 000)
    for flt in [Flt::F32, Flt::F64] {
        for &e in &[Entry::ArithHuge, Entry::GeoHuge, Entry::HarmHuge, Entry::PairedHuge, Entry::UnpairedHuge] {
            for &c in &[1.0f64, 0.5, 3.0, 0.1, 1e-3, 4.35] {
                for len in [2usize, 3] {
                    for k in [0u64, 1, 15, 16, 17, 18, 33] {
                        for &cf in &[18u8, 19, 20] {
                            let a = vec![encf(flt, c); len];
                            let b = if e == Entry::PairedHuge { vec![encf(flt, c * 0.5); len] } else { a.clone() };
                            out.push(Case { entry: e, flt, a, b, n: k, k: 0, q: 0, conf: cf, style: 0, fault: "huge-population+constant".into(), pos: k as u32 });
                        }
                    }
                }
            }
        }
    }
    // ---- records every one of which is valid (finite, with a finite square) but whose squares
    // overflow the element type once a few of them are summed - by further appends, or only by a
    // merge of two healthy states: huge magnitudes are degenerate data (any Err or a valid Ok), and
    // the overflow must not come back as Ok with NaN bounds
    for flt in [Flt::F32, Flt::F64] {
        let root = match flt {
            Flt::F32 => (f32::MAX as f64).sqrt(),
            _ => f64::MAX.sqrt(),
        };
        for &e in &[Entry::ArithHuge, Entry::HarmHuge, Entry::PairedHuge, Entry::UnpairedHuge] {
            for &top in &[0.95f64, 0.7, 0.5, 0.26] {
                for len in [2usize, 3, 5] {
                    for k in [0u64, 1, 2, 3, 5, 8] {
                        for &cf in &[18u8, 19, 20] {
                            let vals: Vec<f64> = (0..len).map(|i| root * top * [1.0, 0.61, 0.83, 0.47, 0.92][i]).collect();
                            let a: Vec<Bits> = vals.iter().map(|&x| encf(flt, if e == Entry::HarmHuge { 1.0 / x } else { x })).collect();
                            let b: Vec<Bits> = if e == Entry::PairedHuge { vec![encf(flt, 0.0); len] } else { a.iter().rev().copied().collect() };
                            out.push(Case { entry: e, flt, a, b, n: k, k: 0, q: 0, conf: cf, style: 0, fault: "squares-overflow-when-summed".into(), pos: k as u32 });
                        }
                    }
                }
            }
        }
    }
    // ---- capacity boundary of ci_max_size (exactly CAP is legal, CAP + 1 is the documented panic)
    for flt in [Flt::F32, Flt::F64] {
        for (e, cap) in [(Entry::QuantMaxSize8, 8usize), (Entry::QuantMaxSize1024, 1024usize)] {
            for len in [cap - 1, cap, cap + 1] {
                for &q in &[f64::NAN, 0.0, 0.5, 0.999, 1.0] {
                    for &cf in &[18u8, 19, 20] {
                        tag += 1;
                        let bg = background(seed, tag, len, flt);
                        out.push(Case { entry: e, flt, a: bg, b: vec![], n: 0, k: 0, q: q.to_bits(), conf: cf, style: 0, fault: "capacity-boundary".into(), pos: len as u32 });
                    }
                }
            }
        }
    }
    // ---- counters (no float type): skewed success reports; very large populations exercise the
    // integer / float conversions
    let ns: [u64; 18] = [0, 1, 2, 3, 4, 5, 9, 10, 11, 20, 31, 40, 100, 1000, 1 << 32, (1 << 53) + 1, u64::MAX - 1, u64::MAX];
    for &e in &[Entry::PropCi, Entry::PropWilson, Entry::PropZNormal, Entry::PropCiTrue, Entry::PropCiIf, Entry::PropStatsCi, Entry::PropIsSignificant] {
        for &n in &ns {
            let mut ks: Vec<u64> = vec![0, 1, 2, 3, 5, 6, 9, 10, n / 2];
            for d in 0..=11u64 {
                if n >= d {
                    ks.push(n - d);
                }
            }
            ks.extend_from_slice(&[n.saturating_add(1), n.saturating_add(2), n.saturating_mul(2).saturating_add(7)]);
            ks.sort_unstable();
            ks.dedup();
            for &k in &ks {
                let counts_only = matches!(e, Entry::PropCiTrue | Entry::PropCiIf | Entry::PropStatsCi);
                if counts_only && (k > n || n > 100_000) {
                    continue; // a counting front-end cannot observe more successes than records (and is fed real records)
                }
                let fault = if k > n { "skewed:duplicated-success-reports" } else if k < 2 || n - k < 2 { "skewed:lost-reports" } else { "none" };
                for &cf in &ENUM_CONFS {
                    out.push(Case { entry: e, flt: Flt::Int, a: vec![], b: vec![], n, k, q: 0, conf: cf, style: 0, fault: fault.into(), pos: 0 });
                    if e == Entry::PropIsSignificant {
                        break;
                    }
                }
            }
        }
    }
    let rates: [f64; 14] = [f64::NAN, f64::NEG_INFINITY, -1.0, -0.0, 0.0, 5e-324, 1e-9, 0.01, 0.5, 0.99, 1.0, 1.0 + f64::EPSILON, 2.0, f64::INFINITY];
    for &n in &ns {
        for &rate in &rates {
            for &cf in &ENUM_CONFS {
                out.push(Case { entry: Entry::PropWilsonRatio, flt: Flt::Int, a: vec![], b: vec![], n, k: 0, q: rate.to_bits(), conf: cf, style: 0, fault: "skewed:ratio".into(), pos: 0 });
            }
        }
    }
    let qs: [f64; 14] = [f64::NAN, f64::NEG_INFINITY, -1.0, -0.0, 0.0, 5e-324, 1e-9, 0.25, 0.5, 0.999, 1.0 - f64::EPSILON / 2.0, 1.0, 1.5, f64::INFINITY];
    for &e in &[Entry::QuantIndices, Entry::QuantStatsCi] {
        for &n in &[0u64, 1, 2, 3, 4, 5, 8, 15, 100, 1000, 100_000, 1 << 32, (1 << 53) + 1, u64::MAX] {
            for &q in &qs {
                for &cf in &ENUM_CONFS {
                    out.push(Case { entry: e, flt: Flt::Int, a: vec![], b: vec![], n, k: 0, q: q.to_bits(), conf: cf, style: 0, fault: if n < 4 { "early-eof".into() } else { "bad-query".into() }, pos: 0 });
                }
            }
        }
    }
    out
}

/// abstract shape of a case (for distinct counting): entry, type, lengths, fault label, position, confidence kind
pub fn case_shape(c: &Case) -> u64 {
    let mut d = crate::rng::Digest::new();
    d.bytes(c.entry.name().as_bytes());
    d.u64(match c.flt {
        Flt::F32 => 1,
        Flt::F64 => 2,
        Flt::Int => 3,
    });
    d.u64(c.a.len() as u64);
    d.u64(c.b.len() as u64);
    d.bytes(c.fault.as_bytes());
    d.u64(c.pos as u64);
    d.u64(c.conf as u64);
    d.u64(c.style as u64);
    d.u64(c.n);
    d.u64(c.k);
    d.u64(c.q);
    d.0
}

// ------------------------------------------------------------------------------------------
// neighbours: the valid requests closest to a faulty one
// ------------------------------------------------------------------------------------------

/// Requests that agree with `c` in everything but the one thing that makes `c` invalid: the same
/// stream with the bad record(s) replaced by an ordinary value, the same stream padded to a
/// sufficient / equal length, the same data with an ordinary quantile, and for the counters
/// (n, k) the pairs that share two of {k, n, |n - k|} with the bad pair. A process that served
/// such a neighbour immediately before `c` must still answer `c` as if it were its first
/// request: whatever the library remembers between calls has to identify a request completely.
pub fn neighbours_of(c: &Case) -> Vec<Case> {
    let mut out: Vec<Case> = Vec::new();
    let positive = matches!(c.entry, Entry::GeoCi | Entry::GeoCiTrait | Entry::HarmCi | Entry::HarmMeanCiTrait | Entry::GeoInc | Entry::HarmInc | Entry::GeoHuge | Entry::HarmHuge);
    let enc = |x: f64| -> Bits {
        match c.flt {
            Flt::F32 => (x as f32).to_bits() as u64,
            _ => x.to_bits(),
        }
    };
    let ok = |b: Bits| -> bool {
        let v = crate::tape::decode(b, c.flt);
        v.is_finite() && (!positive || v > 0.0)
    };
    let mut push = |n: Case| {
        if (n.a != c.a || n.b != c.b || n.n != c.n || n.k != c.k || n.q != c.q) && !out.iter().any(|o: &Case| o.a == n.a && o.b == n.b && o.n == n.n && o.k == n.k && o.q == n.q) {
            out.push(n);
        }
    };
    let two_streams = !c.b.is_empty() || matches!(c.entry, Entry::PairedCi | Entry::PairedInc | Entry::PairedTuple | Entry::UnpairedCi | Entry::UnpairedInc | Entry::PairedHuge | Entry::UnpairedHuge);
    if c.flt != Flt::Int && (!c.a.is_empty() || two_streams) {
        // (1) bad records replaced, lengths untouched
        let mut r = c.clone();
        r.fault = "none".into();
        for (i, x) in r.a.iter_mut().enumerate() {
            if !ok(*x) {
                *x = enc(1.5 + i as f64);
            }
        }
        for (i, x) in r.b.iter_mut().enumerate() {
            if !ok(*x) {
                *x = enc(2.25 + i as f64);
            }
        }
        push(r.clone());
        // (2) padded to a sufficient and equal length
        let want = r.a.len().max(r.b.len()).max(5);
        while r.a.len() < want {
            r.a.push(enc(1.25 * (r.a.len() + 1) as f64));
        }
        if two_streams {
            while r.b.len() < want {
                r.b.push(enc(0.75 * (r.b.len() + 2) as f64));
            }
        }
        push(r);
    }
    // (3) an ordinary quantile / rate instead of the bad one
    let q = f64::from_bits(c.q);
    if !(q > 0.0 && q < 1.0) {
        for nq in [0.5f64, 0.25] {
            let mut r = c.clone();
            r.fault = "none".into();
            r.q = nq.to_bits();
            if r.n < 12 && matches!(r.entry, Entry::QuantIndices | Entry::QuantStatsCi) {
                r.n = 12;
            }
            push(r);
        }
    }
    // (4) counter pairs sharing two of {k, n, |n - k|} with (n, k)
    let (n, k) = (c.n, c.k);
    let d = n.abs_diff(k);
    let counters = matches!(c.entry, Entry::PropCi | Entry::PropWilson | Entry::PropZNormal | Entry::PropWilsonRatio | Entry::PropCiTrue | Entry::PropCiIf | Entry::PropStatsCi | Entry::PropIsSignificant | Entry::QuantIndices | Entry::QuantStatsCi);
    // entries that materialise n items stay small
    let cap = if matches!(c.entry, Entry::PropCi | Entry::PropWilson | Entry::PropZNormal | Entry::PropWilsonRatio | Entry::PropIsSignificant | Entry::QuantIndices) { u64::MAX } else { 10_000 };
    for (nn, kk) in [(n.max(k), n.min(k)), (k.saturating_add(d), k), (n, d.min(n)), (n.saturating_add(k), k), (n.max(k).saturating_mul(2), n.min(k).max(d))] {
        if counters && kk <= nn && (nn, kk) != (n, k) && nn > 0 && nn <= cap {
            let mut r = c.clone();
            r.fault = "none".into();
            r.n = nn;
            r.k = kk;
            push(r);
        }
    }
    out.truncate(6);
    out
}
