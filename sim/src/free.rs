//! Fault-free configuration (C08, C09): seeded scheduler over deliveries, merges, forks, empty
//! operands and queries; execution of an event list against the real library; final reduction
//! and final oracle. Generation *is* execution: the scheduler looks at the world, emits the next
//! event, and the same `exec` that replay uses carries it out.

use crate::machines::*;
use crate::oracle::*;
use crate::rng::{mix, Digest, Rng};
use crate::tape::*;
use crate::world::*;
use serde_json::{json, Value};
use std::collections::BTreeSet;

/// Everything needed to replay one run without a PRNG.
#[derive(Clone, Debug)]
pub struct Trace {
    pub property: String,
    pub config: String, // "free" | "trees" | "long" | "fault" | "checkpoint"
    pub machine: String,
    pub verif_seed: u64,
    pub run_index: u64,
    pub exact_data: bool,
    /// the run executes on a freshly spawned OS thread and its final check also asks a second
    /// fresh thread (hidden thread-local state in the library would show as a difference); a
    /// replay runs on the main thread of a fresh process, which is equally pristine
    pub isolated: bool,
    pub tapes: [TapeSpec; 2],
    pub events: Vec<Event>,
    /// informational: the swarm knobs the scheduler drew for this run
    pub knobs: Value,
    pub violation: Option<Violation>,
    /// extra, engine-specific material (e.g. the shuttle schedule of Engine B)
    pub extra: Value,
}

impl Trace {
    pub fn to_json(&self) -> Value {
        json!({
            "engine": "A",
            "property": self.property,
            "config": self.config,
            "machine": self.machine,
            "verif_seed": self.verif_seed,
            "run_index": self.run_index,
            "exact_data": self.exact_data,
            "isolated": self.isolated,
            "tapes": [self.tapes[0].to_json(), self.tapes[1].to_json()],
            "events": self.events.iter().map(|e| e.to_json()).collect::<Vec<_>>(),
            "knobs": self.knobs,
            "violation": self.violation.as_ref().map(|v| json!({
                "property": v.property, "invariant": v.invariant, "slot": v.slot, "detail": v.detail })),
            "extra": self.extra,
        })
    }
    pub fn from_json(v: &Value) -> Result<Trace, String> {
        let s = |k: &str| v.get(k).and_then(|x| x.as_str()).map(|x| x.to_string()).ok_or(format!("missing {k}"));
        let tapes = v.get("tapes").and_then(|x| x.as_array()).ok_or("missing tapes")?;
        let events = v.get("events").and_then(|x| x.as_array()).ok_or("missing events")?;
        let mut evs = Vec::new();
        for e in events {
            evs.push(Event::from_json(e)?);
        }
        let viol = v.get("violation").and_then(|x| if x.is_null() { None } else { Some(x) }).map(|x| Violation {
            property: x["property"].as_str().unwrap_or("").to_string(),
            invariant: x["invariant"].as_str().unwrap_or("").to_string(),
            slot: x["slot"].as_u64().unwrap_or(0) as u16,
            detail: x["detail"].as_str().unwrap_or("").to_string(),
        });
        Ok(Trace {
            property: s("property")?,
            config: s("config")?,
            machine: s("machine")?,
            verif_seed: v.get("verif_seed").and_then(|x| x.as_u64()).unwrap_or(0),
            run_index: v.get("run_index").and_then(|x| x.as_u64()).unwrap_or(0),
            exact_data: v.get("exact_data").and_then(|x| x.as_bool()).unwrap_or(false),
            isolated: v.get("isolated").and_then(|x| x.as_bool()).unwrap_or(false),
            tapes: [TapeSpec::from_json(&tapes[0])?, TapeSpec::from_json(&tapes[1])?],
            events: evs,
            knobs: v.get("knobs").cloned().unwrap_or(Value::Null),
            violation: viol,
            extra: v.get("extra").cloned().unwrap_or(Value::Null),
        })
    }
}

pub fn prop_of(s: &str) -> Prop {
    match s {
        "C08" => Prop::C08,
        _ => Prop::C09,
    }
}

/// Per-run coverage facts (merged into batch statistics by the runner).
#[derive(Clone, Debug, Default)]
pub struct Reach {
    pub shape: u64,
    pub trees: Vec<u64>,
    pub states: BTreeSet<u32>,
    pub steps: u64,
    pub records: u64,
    /// isolated runs: bit-exact rendering of what every live slot answers at the end of the run
    pub final_obs: Vec<String>,
}

/// abstract state of a slot: count bucket x (any compensation non-zero) x right_acc x merged
fn abstract_state<M: Machine>(s: &Slot<M>) -> u32 {
    let fp = M::fingerprint(&s.st);
    let mut nz = false;
    for part in fp.split("compensation: ").skip(1) {
        let num: String = part.chars().take_while(|c| !matches!(c, ' ' | ',' | '}')).collect();
        if num != "0.0" && num != "-0.0" {
            nz = true;
        }
    }
    len_bucket(s.model.total() as u32) | ((nz as u32) << 8) | ((s.model.right_acc as u32) << 9) | (((s.model.merges > 0) as u32) << 10) | ((s.model.depth.min(15)) << 11)
}

/// Executes `events` on a fresh world. Returns the first violation (if any) and coverage.
/// `final_check`: after the last event every live slot is checked with the full oracle.
pub fn exec<M: Machine>(tr: &Trace, stats: &mut Stats) -> (Option<Violation>, Reach) {
    exec_probe::<M>(tr, stats, None)
}

/// Like `exec`; additionally records the Debug fingerprint of the queried slot at every Query
/// event (Engine B compares them with what its threads computed / observed).
pub fn exec_probe<M: Machine>(tr: &Trace, stats: &mut Stats, mut probe: Option<&mut Vec<String>>) -> (Option<Violation>, Reach) {
    let tapes = [tr.tapes[0].materialize(), tr.tapes[1].materialize()];
    let mut w = World::<M>::new(tapes);
    let mut reach = Reach::default();
    let mut dg = Digest::new();
    let prop = prop_of(&tr.property);
    let all_confs: Vec<u8> = vec![18, 19, 20]; // 95% two-sided / upper / lower for the final check
    for ev in &tr.events {
        dg.u64(ev.shape());
        reach.steps += 1;
        let info = w.step(ev);
        if let Some(out) = &info.outcome {
            if !out.is_ok() {
                return (
                    Some(Violation::new(
                        &tr.property,
                        if matches!(ev, Event::Merge { .. } | Event::MergeEmpty { .. }) { "merge-of-valid-states-failed" } else { "valid-delivery-rejected" },
                        info.touched.first().copied().unwrap_or(0),
                        format!("{:?} on valid data: {}", ev, out.class()),
                    )),
                    reach,
                );
            }
        }
        for &t in &info.touched {
            if let Some(s) = w.get(t) {
                reach.states.insert(abstract_state::<M>(s));
                // cheap step invariant: exact counters after every event
                if let Some(v) = count_invariant::<M>(&w, t, &tr.property) {
                    return (Some(v), reach);
                }
            }
        }
        if let Event::Query { a, confs } = ev {
            if let Some(p) = probe.as_deref_mut() {
                p.push(w.get(*a).map(|s| M::fingerprint(&s.st)).unwrap_or_else(|| "<no such slot>".into()));
            }
            let cfg = CheckCfg { prop, confs, exact_data: tr.exact_data, pristine: false };
            if let Some(v) = check_slot::<M>(&w, *a, cfg, stats) {
                return (Some(v), reach);
            }
            if prop == Prop::C09 && M::FAMILY != Family::Sum {
                if let (Some(b), Some(&c)) = (alternation_partner::<M>(&w, *a), confs.first()) {
                    if let (Some(sa), Some(sb)) = (w.get(*a), w.get(b)) {
                        if let Some(v) = alternation_probe::<M>(&sa.st, &sb.st, c, false, (*a, b), stats) {
                            return (Some(v), reach);
                        }
                    }
                }
            }
        }
    }
    for i in w.live() {
        // the final check also compares with a pristine thread (one spawn per live slot)
        let cfg = CheckCfg { prop, confs: &all_confs, exact_data: tr.exact_data, pristine: tr.isolated && prop == Prop::C09 && M::FAMILY != Family::Sum };
        if let Some(s) = w.get(i) {
            reach.trees.push(s.model.tree);
            reach.records += s.model.total();
        }
        if let Some(v) = check_slot::<M>(&w, i, cfg, stats) {
            return (Some(v), reach);
        }
        if prop == Prop::C09 {
            if let Some(s) = w.get(i) {
                if let Some(v) = crate::oracle::doubling_probe_c09::<M>(i, s, stats) {
                    return (Some(v), reach);
                }
            }
        }
        if tr.isolated {
            if let Some(s) = w.get(i) {
                let o = M::observe(&s.st, ObsPlan { confs: &all_confs, unguarded: false });
                reach.final_obs.push(format!("slot {i}: {} | {}", M::fingerprint(&s.st), o.iter().map(|(w, v)| format!("{:?}={}", w, v.render())).collect::<Vec<_>>().join(" ")));
            }
        }
    }
    reach.shape = dg.0;
    (None, reach)
}

fn count_invariant<M: Machine>(w: &World<M>, slot: u16, pid: &str) -> Option<Violation> {
    if M::FAMILY == Family::Sum {
        return None;
    }
    let s = w.get(slot)?;
    let o = M::observe(&s.st, ObsPlan { confs: &[], unguarded: false });
    let expect: Vec<u64> = match (M::FAMILY, M::name().as_str()) {
        (Family::Unpaired, _) => vec![s.model.count(0), s.model.count(1)],
        (Family::Count, "proportion::Stats") => {
            vec![s.model.count(0), s.model.items[0].iter().filter(|&&i| w.tapes[0][i as usize] != 0).count() as u64]
        }
        _ => vec![s.model.count(0)],
    };
    for (k, &e) in expect.iter().enumerate() {
        match obs_get(&o, What::Count(k as u8)) {
            Some(Val::U(g)) if *g == e => {}
            other => {
                return Some(Violation::new(
                    pid,
                    "count-mismatch",
                    slot,
                    format!("counter {k}: model {e}, state reports {:?}", other.map(|v| v.render())),
                ))
            }
        }
    }
    None
}

// ------------------------------------------------------------------------------------------
// the scheduler
// ------------------------------------------------------------------------------------------

#[derive(Clone, Copy, Debug, PartialEq, Eq)]
pub enum SizeClass {
    /// tapes of 2..=64 records
    Small,
    /// tapes of 2..=4096 records
    Medium,
}

const MERGE_POLICIES: [&str; 5] = ["left-fold", "right-fold", "balanced", "random-adjacent", "random-unordered"];
const CHUNK_LAWS: [&str; 5] = ["all-1", "fixed", "geometric", "one-huge-many-tiny", "uniform"];

/// Generates and executes one fault-free run. Deterministic in (verif_seed, property, machine, run).
pub fn generate<M: Machine>(property: &str, verif_seed: u64, run: u64, size: SizeClass) -> Trace {
    let tag = format!("{property}/free/{}", M::name());
    let mut r = Rng::new(mix(verif_seed, &tag, run));
    let flt = M::FLT;
    // ---- swarm knobs
    let positive = matches!(M::TRANSFORM, Transform::Ln | Transform::Recip);
    let mut family = r.below(N_FAMILIES as u64) as u8;
    if M::FAMILY == Family::Count {
        family = r.below(10) as u8;
    }
    if M::FAMILY == Family::Sum && r.chance(0.3) {
        family = *r.pick(&[FAM_TINY, FAM_HUGE, FAM_VANISHING, FAM_NEAR_UNDERFLOW, FAM_NEAR_UNDERFLOW, FAM_INT_BEYOND_MANTISSA]);
    }
    if !positive && flt != Flt::Int && r.chance(0.06) {
        family = FAM_ALTERNATING;
    }
    if property == "C08" && flt != Flt::Int && M::FAMILY == Family::Mean && r.chance(0.06) {
        family = FAM_INT_BEYOND_MANTISSA;
    }
    if property == "C09" && flt != Flt::Int && M::FAMILY != Family::Sum && r.chance(0.08) {
        family = FAM_POW2;
    }
    let exact_data = family == FAM_EXACT && !positive && flt != Flt::Int;
    let max_len = match size {
        SizeClass::Small => 64,
        SizeClass::Medium => {
            if exact_data {
                1024
            } else {
                4096
            }
        }
    };
    // lengths are skewed towards small tapes: most bugs need few records
    let len0 = skewed_len(&mut r, max_len);
    let len1 = if M::STREAMS == 2 {
        if M::LOCKSTEP {
            len0
        } else {
            skewed_len(&mut r, max_len)
        }
    } else {
        0
    };
    let scale_exp = if flt == Flt::Int || family == FAM_TINY || family == FAM_HUGE || family == FAM_NEAR_UNDERFLOW { 0 } else { r.range(-20, 20) as i32 };
    // statistics machines under C08: now and then a scale at which every square underflows to zero
    // or to a subnormal while the records themselves are ordinary normal numbers ("the statistics
    // built on it inherit the bound" is about the sum as much as about the sum of squares)
    let scale_exp = if property == "C08" && M::FAMILY == Family::Mean && flt != Flt::Int && (family < FAM_TINY || family == FAM_ALTERNATING) && r.chance(0.1) {
        match flt {
            Flt::F32 => -(r.range(70, 110) as i32),
            _ => -(r.range(520, 900) as i32),
        }
    } else {
        scale_exp
    };
    let fam1 = if M::STREAMS == 2 && !exact_data { pick_family(&mut r, false) } else { family };
    let tapes = [
        TapeSpec::Gen { family, seed: r.next_u64(), len: len0 as u32, flt, positive, scale_exp },
        TapeSpec::Gen {
            family: fam1,
            seed: r.next_u64(),
            len: len1 as u32,
            flt,
            positive,
            scale_exp: if M::STREAMS == 2 && !exact_data { r.range(-20, 20) as i32 } else { scale_exp },
        },
    ];
    let n_workers = r.usize_in(1, 8) as u16;
    let chunk_law = r.below(5) as usize;
    let fixed_chunk = r.usize_in(1, 64) as u32;
    let merge_policy = r.below(5) as usize;
    // swarm: a random non-empty subset of delivery styles and merge operators is enabled per run
    let styles: Vec<u8> = subset(&mut r, M::N_STYLES);
    let ops: Vec<u8> = subset(&mut r, M::N_MERGE);
    let w_deliver = 8;
    let w_merge = *r.pick(&[0u32, 1, 3, 6]);
    let w_empty = *r.pick(&[0u32, 0, 1, 3]);
    let w_fork = *r.pick(&[0u32, 0, 1, 2]);
    let w_query = *r.pick(&[0u32, 1, 1, 2]);
    let knobs = json!({
        "family": [FAMILY_NAMES[family as usize % FAMILY_NAMES.len()], FAMILY_NAMES[fam1 as usize % FAMILY_NAMES.len()]],
        "workers": n_workers, "chunk_law": CHUNK_LAWS[chunk_law], "merge_policy": MERGE_POLICIES[merge_policy],
        "styles": styles.iter().map(|&s| M::style_name(s)).collect::<Vec<_>>(),
        "merge_ops": ops, "weights": [w_deliver, w_merge, w_empty, w_fork, w_query],
    });
    let mut tr = Trace {
        property: property.to_string(),
        config: "free".into(),
        machine: M::name(),
        verif_seed,
        run_index: run,
        exact_data,
        isolated: run % 16 == 0,
        tapes,
        events: Vec::new(),
        knobs,
        violation: None,
        extra: Value::Null,
    };
    // ---- map phase: the scheduler needs to know what is live, which it can track symbolically
    // (slot liveness and sizes follow from the events alone, no library call is needed)
    let total = [len0, len1];
    let mut remaining = total;
    let mut live: Vec<(u16, u64)> = Vec::new(); // (slot, records)
    let mut next_slot: u16 = n_workers;
    let mass_cap = ((len0 + len1) as u64) * 3 + 8;
    let mut mass: u64 = 0;
    let step_cap = 10_000usize;
    let mut huge_done = false;
    loop {
        if tr.events.len() >= step_cap {
            break;
        }
        let can_deliver = remaining[0] > 0 || remaining[1] > 0;
        if !can_deliver {
            break;
        }
        let choice = r.weighted(&[w_deliver, if live.len() >= 2 { w_merge } else { 0 }, if live.is_empty() { 0 } else { w_empty }, if live.is_empty() { 0 } else { w_fork }, if live.is_empty() { 0 } else { w_query }]);
        match choice {
            0 => {
                let stream = if M::STREAMS == 2 && !M::LOCKSTEP {
                    if remaining[0] == 0 {
                        1
                    } else if remaining[1] == 0 {
                        0
                    } else {
                        r.below(2) as usize
                    }
                } else {
                    0
                };
                let rem = remaining[stream].max(if M::LOCKSTEP { 0 } else { 0 });
                let len = match chunk_law {
                    0 => 1,
                    1 => fixed_chunk,
                    2 => geometric(&mut r, 0.3) as u32,
                    3 => {
                        if !huge_done && r.chance(0.2) {
                            huge_done = true;
                            (rem as u32 * 3 / 4).max(1)
                        } else {
                            r.usize_in(0, 2) as u32
                        }
                    }
                    _ => r.usize_in(0, 40) as u32,
                };
                let style = *r.pick(&styles);
                let dst = r.below(n_workers as u64) as u16;
                let ctor = r.below(M::N_EMPTY as u64) as u8;
                let dual = M::LOCKSTEP || (M::FAMILY == Family::Unpaired && unpaired_style_is_dual(style));
                let mut got = 0u64;
                if dual {
                    let t0 = (len as usize).min(remaining[0]);
                    let t1 = (len as usize).min(remaining[1]);
                    let (t0, t1) = if M::LOCKSTEP { (t0.min(t1), t0.min(t1)) } else { (t0, t1) };
                    remaining[0] -= t0;
                    remaining[1] -= t1;
                    got += if M::LOCKSTEP { t0 as u64 } else { (t0 + t1) as u64 };
                } else {
                    let t = (len as usize).min(remaining[stream]);
                    remaining[stream] -= t;
                    got += t as u64;
                }
                mass += got;
                match live.iter_mut().find(|(s, _)| *s == dst) {
                    Some(e) => e.1 += got,
                    None => live.push((dst, got)),
                }
                tr.events.push(Event::Deliver { dst, stream: stream as u8, len, style, ctor });
            }
            1 => {
                let i = r.below(live.len() as u64) as usize;
                let mut j = r.below(live.len() as u64 - 1) as usize;
                if j >= i {
                    j += 1;
                }
                let (a, na) = live[i];
                let (b, nb) = live[j];
                let op = *r.pick(&ops);
                let dst = if r.chance(0.7) { a } else { let d = next_slot; next_slot += 1; d };
                live.retain(|(s, _)| *s != a && *s != b);
                live.push((dst, na + nb));
                tr.events.push(Event::Merge { a, b, op, dst });
            }
            2 => {
                let (a, _) = live[r.below(live.len() as u64) as usize];
                tr.events.push(Event::MergeEmpty { a, side: r.below(2) as u8, op: r.below(3) as u8, ctor: r.below(M::N_EMPTY as u64) as u8 });
            }
            3 => {
                let (a, na) = live[r.below(live.len() as u64) as usize];
                if mass + na <= mass_cap {
                    let dst = next_slot;
                    next_slot += 1;
                    mass += na;
                    live.push((dst, na));
                    tr.events.push(Event::Fork { a, dst, how: r.below(2) as u8 });
                }
            }
            _ => {
                let (a, _) = live[r.below(live.len() as u64) as usize];
                let confs = draw_confs(&mut r);
                tr.events.push(Event::Query { a, confs });
            }
        }
    }
    // ---- reduce phase: fold every live slot into one according to the merge policy
    live.sort_by_key(|(s, _)| *s);
    let mut order: Vec<u16> = live.iter().map(|(s, _)| *s).collect();
    if merge_policy == 4 {
        // channel fan-in: arrival order is arbitrary
        for i in (1..order.len()).rev() {
            let j = r.below(i as u64 + 1) as usize;
            order.swap(i, j);
        }
    }
    let mid_query = r.chance(0.3);
    while order.len() > 1 {
        let op = *r.pick(&ops);
        match merge_policy {
            0 | 4 => {
                // acc = acc (op) next
                let a = order[0];
                let b = order.remove(1);
                tr.events.push(Event::Merge { a, b, op: left_op::<M>(op), dst: a });
            }
            1 => {
                // acc = next (op) acc : the accumulated state is the right operand
                let a = order[0];
                let b = order.remove(1);
                tr.events.push(Event::Merge { a, b, op: right_op::<M>(op), dst: a });
            }
            2 => {
                // balanced: merge adjacent pairs level by level
                let mut next = Vec::new();
                let mut i = 0;
                while i + 1 < order.len() {
                    tr.events.push(Event::Merge { a: order[i], b: order[i + 1], op, dst: order[i] });
                    next.push(order[i]);
                    i += 2;
                }
                if i < order.len() {
                    next.push(order[i]);
                }
                order = next;
            }
            _ => {
                // rayon-shaped: merge a random adjacent pair, left operand first
                let i = r.below(order.len() as u64 - 1) as usize;
                let a = order[i];
                let b = order.remove(i + 1);
                tr.events.push(Event::Merge { a, b, op, dst: a });
            }
        }
        if mid_query && r.chance(0.2) {
            tr.events.push(Event::Query { a: order[0], confs: draw_confs(&mut r) });
        }
    }
    if let Some(&a) = order.first() {
        if r.chance(0.5) {
            tr.events.push(Event::MergeEmpty { a, side: r.below(2) as u8, op: r.below(3) as u8, ctor: 0 });
        }
        tr.events.push(Event::Query { a, confs: draw_confs(&mut r) });
    }
    tr
}

/// operators whose first argument ends up on the left
fn left_op<M: Machine>(op: u8) -> u8 {
    if M::N_MERGE == 6 {
        [0, 2, 3][(op % 3) as usize]
    } else {
        [0, 2][(op % 2) as usize]
    }
}
/// operators whose first argument (the accumulated state) ends up on the right
fn right_op<M: Machine>(op: u8) -> u8 {
    if M::N_MERGE == 6 {
        [1, 4, 5][(op % 3) as usize]
    } else {
        [1, 3][(op % 2) as usize]
    }
}

pub fn draw_confs(r: &mut Rng) -> Vec<u8> {
    let k = r.usize_in(1, 3);
    (0..k).map(|_| r.below(N_CONF as u64) as u8).collect()
}

fn subset(r: &mut Rng, n: u8) -> Vec<u8> {
    let mut v: Vec<u8> = (0..n).filter(|_| r.chance(0.5)).collect();
    if v.is_empty() {
        v.push(r.below(n as u64) as u8);
    }
    v
}

fn pick_family(r: &mut Rng, allow_exact: bool) -> u8 {
    loop {
        let f = r.below(N_FAMILIES as u64) as u8;
        if f != FAM_EXACT || allow_exact {
            return f;
        }
    }
}

fn geometric(r: &mut Rng, p: f64) -> u64 {
    let mut k = 0;
    while !r.chance(p) && k < 200 {
        k += 1;
    }
    k
}

pub fn skewed_len(r: &mut Rng, max: usize) -> usize {
    // half of the runs have <= 16 records, a quarter <= 128, the rest up to max
    let cap = match r.below(4) {
        0 | 1 => 16.min(max),
        2 => 128.min(max),
        _ => max,
    };
    r.usize_in(2.min(cap), cap)
}
