//! Events, the simulated world (tapes + slots holding a real state and its model) and the
//! interpreter that executes one event against the real library while updating the model.
//!
//! An event list is a complete, PRNG-free description of an execution: replaying it is a pure
//! function of the list, the tapes and the code under test. Events that refer to a slot that
//! does not exist (any more) are no-ops, so every subsequence of a valid program is a valid
//! program; that is what makes delta-debugging of failing traces possible.

use crate::exact::Agg;
use crate::machines::*;
use serde_json::{json, Value};

#[derive(Clone, Debug, PartialEq)]
pub enum Event {
    /// feed the next `len` records of tape(s) to slot `dst` (created empty on demand with
    /// constructor variant `ctor`); `stream` selects the tape for two-stream machines
    Deliver { dst: u16, stream: u8, len: u32, style: u8, ctor: u8 },
    /// merge slots a and b (both consumed) with operator `op`; result stored in `dst`
    Merge { a: u16, b: u16, op: u8, dst: u16 },
    /// merge slot a with a fresh empty state (constructor variant `ctor`), empty on `side`
    /// (0: a op empty, 1: empty op a), using operator `op`
    MergeEmpty { a: u16, side: u8, op: u8, ctor: u8 },
    /// copy / clone slot a into slot dst
    Fork { a: u16, dst: u16, how: u8 },
    /// query slot a: every accessor and ci for the given confidence numbers, twice, and run
    /// the property oracle on it
    Query { a: u16, confs: Vec<u8> },
    /// (fault configurations) the next delivery to `dst` carries a fault; see faults.rs
    Fault { dst: u16, stream: u8, len: u32, style: u8, kind: u8, pos: u32, payload: u64 },
    /// (checkpoint configuration) serialize slot a into the durable store with encoder `enc`
    Checkpoint { a: u16, enc: u8 },
    /// (checkpoint configuration) drop the in-memory state of slot a, restore it from its last
    /// checkpoint and re-apply the deliveries logged since
    CrashRestore { a: u16 },
}

impl Event {
    pub fn to_json(&self) -> Value {
        match self {
            Event::Deliver { dst, stream, len, style, ctor } => {
                json!({"ev":"Deliver","dst":dst,"stream":stream,"len":len,"style":style,"ctor":ctor})
            }
            Event::Merge { a, b, op, dst } => json!({"ev":"Merge","a":a,"b":b,"op":op,"dst":dst}),
            Event::MergeEmpty { a, side, op, ctor } => {
                json!({"ev":"MergeEmpty","a":a,"side":side,"op":op,"ctor":ctor})
            }
            Event::Fork { a, dst, how } => json!({"ev":"Fork","a":a,"dst":dst,"how":how}),
            Event::Query { a, confs } => json!({"ev":"Query","a":a,"confs":confs}),
            Event::Fault { dst, stream, len, style, kind, pos, payload } => {
                json!({"ev":"Fault","dst":dst,"stream":stream,"len":len,"style":style,"kind":kind,"pos":pos,"payload":format!("{:x}",payload)})
            }
            Event::Checkpoint { a, enc } => json!({"ev":"Checkpoint","a":a,"enc":enc}),
            Event::CrashRestore { a } => json!({"ev":"CrashRestore","a":a}),
        }
    }
    pub fn from_json(v: &Value) -> Result<Event, String> {
        let g = |k: &str| -> Result<u64, String> {
            v.get(k).and_then(|x| x.as_u64()).ok_or_else(|| format!("event field {k} missing in {v}"))
        };
        let ev = v.get("ev").and_then(|x| x.as_str()).ok_or("event without ev")?;
        Ok(match ev {
            "Deliver" => Event::Deliver {
                dst: g("dst")? as u16,
                stream: g("stream")? as u8,
                len: g("len")? as u32,
                style: g("style")? as u8,
                ctor: g("ctor")? as u8,
            },
            "Merge" => Event::Merge { a: g("a")? as u16, b: g("b")? as u16, op: g("op")? as u8, dst: g("dst")? as u16 },
            "MergeEmpty" => Event::MergeEmpty {
                a: g("a")? as u16,
                side: g("side")? as u8,
                op: g("op")? as u8,
                ctor: g("ctor")? as u8,
            },
            "Fork" => Event::Fork { a: g("a")? as u16, dst: g("dst")? as u16, how: g("how")? as u8 },
            "Query" => Event::Query {
                a: g("a")? as u16,
                confs: v
                    .get("confs")
                    .and_then(|x| x.as_array())
                    .ok_or("Query without confs")?
                    .iter()
                    .map(|x| x.as_u64().unwrap_or(0) as u8)
                    .collect(),
            },
            "Fault" => Event::Fault {
                dst: g("dst")? as u16,
                stream: g("stream")? as u8,
                len: g("len")? as u32,
                style: g("style")? as u8,
                kind: g("kind")? as u8,
                pos: g("pos")? as u32,
                payload: u64::from_str_radix(v.get("payload").and_then(|x| x.as_str()).ok_or("Fault without payload")?, 16)
                    .map_err(|e| e.to_string())?,
            },
            "Checkpoint" => Event::Checkpoint { a: g("a")? as u16, enc: g("enc")? as u8 },
            "CrashRestore" => Event::CrashRestore { a: g("a")? as u16 },
            other => return Err(format!("unknown event {other}")),
        })
    }
    /// shape of the event with data-dependent parameters erased (for distinct-trace counting)
    pub fn shape(&self) -> u64 {
        match self {
            Event::Deliver { style, len, stream, .. } => {
                0x100 | (*style as u64) | ((len_bucket(*len) as u64) << 12) | ((*stream as u64) << 20)
            }
            Event::Merge { op, .. } => 0x200 | *op as u64,
            Event::MergeEmpty { side, op, .. } => 0x300 | ((*side as u64) << 4) | *op as u64,
            Event::Fork { how, .. } => 0x400 | *how as u64,
            Event::Query { .. } => 0x500,
            Event::Fault { kind, style, pos, .. } => {
                0x600 | (*kind as u64) | ((*style as u64) << 12) | ((len_bucket(*pos) as u64) << 20)
            }
            Event::Checkpoint { enc, .. } => 0x700 | *enc as u64,
            Event::CrashRestore { .. } => 0x800,
        }
    }
}

pub fn len_bucket(len: u32) -> u32 {
    match len {
        0 => 0,
        1 => 1,
        2 => 2,
        3..=4 => 3,
        5..=8 => 4,
        9..=32 => 5,
        33..=256 => 6,
        257..=4096 => 7,
        _ => 8,
    }
}

/// What the model knows about a slot.
#[derive(Clone, Default)]
pub struct Model {
    /// multiset of delivered records per stream, as (sorted at use) tape indices
    pub items: [Vec<u32>; 2],
    /// lock-step machines (Paired): tape-1 index of the partner of items[0][j]
    pub pair_b: Vec<u32>,
    /// a non-finite record was absorbed but the machine maps it to a finite value (+inf into Harmonic)
    pub soft_poisoned: bool,
    /// exact aggregates in the accumulation space, per stream
    pub agg: [Agg; 2],
    pub merges: u32,
    pub depth: u32,
    /// shape of the merge tree that produced this slot (digest; leaves = deliveries)
    pub tree: u64,
    /// true once a non-finite value was absorbed (fault configurations only)
    pub poisoned: bool,
    /// at least one delivery or merge put the *accumulated* state on the right-hand side
    pub right_acc: bool,
}

impl Model {
    pub fn count(&self, k: usize) -> u64 {
        self.items[k].len() as u64
    }
    pub fn total(&self) -> u64 {
        (self.items[0].len() + self.items[1].len()) as u64
    }
    pub fn absorb(&mut self, o: &Model) {
        for k in 0..2 {
            self.items[k].extend_from_slice(&o.items[k]);
            self.agg[k].merge(&o.agg[k]);
        }
        self.pair_b.extend_from_slice(&o.pair_b);
        self.soft_poisoned |= o.soft_poisoned;
        self.merges += o.merges + 1;
        self.depth = self.depth.max(o.depth) + 1;
        self.tree = crate::rng::mix(self.tree, "node", o.tree);
        self.poisoned |= o.poisoned;
        self.right_acc |= o.right_acc;
    }
}

pub struct Slot<M: Machine> {
    pub st: M::S,
    pub model: Model,
}

impl<M: Machine> Clone for Slot<M> {
    fn clone(&self) -> Self {
        Slot { st: self.st.clone(), model: self.model.clone() }
    }
}

pub struct World<M: Machine> {
    pub tapes: [Vec<Bits>; 2],
    pub cursor: [usize; 2],
    pub slots: Vec<Option<Slot<M>>>,
    /// total number of records held by all models (forks can double it; capped by the generator)
    pub mass: u64,
}

#[derive(Clone, Debug)]
pub struct StepInfo {
    /// slots whose state changed in this step
    pub touched: Vec<u16>,
    /// outcome of the delivery, if the event was one
    pub outcome: Option<Out<()>>,
    /// the event had no effect (referred to a missing slot / exhausted tape)
    pub noop: bool,
}

impl<M: Machine> World<M> {
    pub fn new(tapes: [Vec<Bits>; 2]) -> Self {
        World { tapes, cursor: [0, 0], slots: Vec::new(), mass: 0 }
    }

    fn ensure(&mut self, i: u16) {
        if self.slots.len() <= i as usize {
            self.slots.resize_with(i as usize + 1, || None);
        }
    }

    pub fn live(&self) -> Vec<u16> {
        self.slots.iter().enumerate().filter(|(_, s)| s.is_some()).map(|(i, _)| i as u16).collect()
    }

    pub fn remaining(&self, stream: usize) -> usize {
        self.tapes[stream].len() - self.cursor[stream]
    }

    /// Executes a fault-free event. Fault / checkpoint events are handled by the configurations
    /// that own them (they call back into `deliver_records`).
    pub fn step(&mut self, ev: &Event) -> StepInfo {
        match ev {
            Event::Deliver { dst, stream, len, style, ctor } => {
                let stream = (*stream as usize) % M::STREAMS.max(1);
                let dual = M::LOCKSTEP || (M::FAMILY == Family::Unpaired && unpaired_style_is_dual(*style));
                // how many records each tape contributes
                let mut take = [0usize; 2];
                if dual {
                    for k in 0..2 {
                        take[k] = (*len as usize).min(self.remaining(k));
                    }
                    if M::LOCKSTEP {
                        let m = take[0].min(take[1]);
                        take = [m, m];
                    }
                } else {
                    take[stream] = (*len as usize).min(self.remaining(stream));
                }
                let idx: [Vec<u32>; 2] = [
                    (self.cursor[0]..self.cursor[0] + take[0]).map(|i| i as u32).collect(),
                    (self.cursor[1]..self.cursor[1] + take[1]).map(|i| i as u32).collect(),
                ];
                self.cursor[0] += take[0];
                self.cursor[1] += take[1];
                let out = self.deliver_indices(*dst, stream, *style, *ctor, &idx);
                StepInfo { touched: vec![*dst], outcome: Some(out), noop: false }
            }
            Event::Merge { a, b, op, dst } => {
                if a == b {
                    return StepInfo { touched: vec![], outcome: None, noop: true };
                }
                let (sa, sb) = match (self.take(*a), self.take(*b)) {
                    (Some(x), Some(y)) => (x, y),
                    (x, y) => {
                        // put back whatever existed
                        if let Some(x) = x {
                            self.put(*a, x);
                        }
                        if let Some(y) = y {
                            self.put(*b, y);
                        }
                        return StepInfo { touched: vec![], outcome: None, noop: true };
                    }
                };
                let mut model = sa.model.clone();
                model.absorb(&sb.model);
                // operand orientation: which operand is on the right, and is it the bigger one?
                let right_is_a = matches!(op % M::N_MERGE, 1 | 4 | 5) || (M::N_MERGE == 4 && op % 4 == 3);
                let (left_n, right_n) = if right_is_a {
                    (sb.model.total(), sa.model.total())
                } else {
                    (sa.model.total(), sb.model.total())
                };
                if right_n > left_n {
                    model.right_acc = true;
                }
                // a merge is a library call like any other: its panic is data (both operands are
                // gone with it; the event reports the panic and touches nothing)
                let st = match guard(|| M::merge(sa.st, sb.st, *op)) {
                    Ok(st) => st,
                    Err(p) => return StepInfo { touched: vec![], outcome: Some(Out::Panic(p)), noop: false },
                };
                self.put(*dst, Slot { st, model });
                StepInfo { touched: vec![*dst], outcome: None, noop: false }
            }
            Event::MergeEmpty { a, side, op, ctor } => {
                let sa = match self.take(*a) {
                    Some(x) => x,
                    None => return StepInfo { touched: vec![], outcome: None, noop: true },
                };
                let e = M::empty(*ctor);
                // restrict to the operators whose left operand is the first argument
                let op = match op % 3 {
                    0 => 0,
                    1 => 2,
                    _ => {
                        if M::N_MERGE == 6 {
                            3
                        } else {
                            0
                        }
                    }
                };
                let st = match guard(|| if side % 2 == 0 { M::merge(sa.st, e, op) } else { M::merge(e, sa.st, op) }) {
                    Ok(st) => st,
                    Err(p) => return StepInfo { touched: vec![], outcome: Some(Out::Panic(p)), noop: false },
                };
                let mut model = sa.model;
                model.tree = crate::rng::mix(model.tree, "empty", *side as u64);
                self.put(*a, Slot { st, model });
                StepInfo { touched: vec![*a], outcome: None, noop: false }
            }
            Event::Fork { a, dst, how } => {
                if a == dst {
                    return StepInfo { touched: vec![], outcome: None, noop: true };
                }
                let copy = match self.slots.get(*a as usize).and_then(|s| s.as_ref()) {
                    Some(s) => Slot::<M> { st: M::fork(&s.st, *how), model: s.model.clone() },
                    None => return StepInfo { touched: vec![], outcome: None, noop: true },
                };
                // overwriting an existing slot would silently drop records: merge semantics are
                // kept simple by refusing (no-op) instead
                if self.slots.get(*dst as usize).map(|s| s.is_some()).unwrap_or(false) {
                    return StepInfo { touched: vec![], outcome: None, noop: true };
                }
                self.mass += copy.model.total();
                self.put(*dst, copy);
                StepInfo { touched: vec![*dst], outcome: None, noop: false }
            }
            Event::Query { .. } => StepInfo { touched: vec![], outcome: None, noop: false },
            Event::Fault { .. } | Event::Checkpoint { .. } | Event::CrashRestore { .. } => {
                StepInfo { touched: vec![], outcome: None, noop: true }
            }
        }
    }

    /// Deliver the records with the given tape indices (per stream) to slot `dst`.
    pub fn deliver_indices(&mut self, dst: u16, stream: usize, style: u8, ctor: u8, idx: &[Vec<u32>; 2]) -> Out<()> {
        self.ensure(dst);
        if self.slots[dst as usize].is_none() {
            self.slots[dst as usize] = Some(Slot { st: M::empty(ctor), model: Model::default() });
        }
        let recs: [Vec<Bits>; 2] = [
            idx[0].iter().map(|&i| self.tapes[0][i as usize]).collect(),
            idx[1].iter().map(|&i| self.tapes[1][i as usize]).collect(),
        ];
        if NEIGHBOUR.with(|n| n.get()) {
            neighbour_tenant(M::FLT, [&recs[0], &recs[1]]);
        }
        let slot = self.slots[dst as usize].as_mut().unwrap();
        let out = M::deliver(&mut slot.st, style, stream, [&recs[0], &recs[1]]);
        if out.is_ok() {
            // model update (fault-free deliveries always succeed; faulty ones are modelled by
            // the fault configuration, which does not call this with invalid records)
            if M::LOCKSTEP {
                for (j, &i) in idx[0].iter().enumerate() {
                    slot.model.items[0].push(i);
                    slot.model.pair_b.push(idx[1][j]);
                    let (t, sq) = M::tspace(recs[0][j], recs[1][j]);
                    slot.model.agg[0].push(t, sq);
                }
                // lock-step machines keep the partner indices implicit (same positions)
                self.mass += idx[0].len() as u64;
            } else {
                for k in 0..2 {
                    for (j, &i) in idx[k].iter().enumerate() {
                        slot.model.items[k].push(i);
                        if M::FAMILY != Family::Count {
                            let (t, sq) = M::tspace(recs[k][j], 0);
                            // a bare register has no sum of squares (and the extreme-magnitude
                            // families would overflow it)
                            slot.model.agg[k].push(t, if M::FAMILY == Family::Sum { 0.0 } else { sq });
                        }
                    }
                    self.mass += idx[k].len() as u64;
                }
            }
            if style_puts_acc_right::<M>(style) && slot.model.total() > (idx[0].len() + idx[1].len()) as u64 {
                slot.model.right_acc = true;
            }
            slot.model.tree = crate::rng::mix(slot.model.tree, "leaf", len_bucket((idx[0].len() + idx[1].len()) as u32) as u64);
        }
        out
    }

    pub fn take(&mut self, i: u16) -> Option<Slot<M>> {
        self.slots.get_mut(i as usize).and_then(|s| s.take())
    }
    pub fn put(&mut self, i: u16, s: Slot<M>) {
        self.ensure(i);
        self.slots[i as usize] = Some(s);
    }
    pub fn get(&self, i: u16) -> Option<&Slot<M>> {
        self.slots.get(i as usize).and_then(|s| s.as_ref())
    }
}

/// delivery styles in which the already accumulated state is the right-hand operand of a merge
pub fn style_puts_acc_right<M: Machine>(style: u8) -> bool {
    match (M::FAMILY, M::TRANSFORM, M::STREAMS) {
        (Family::Sum, _, _) => style % 8 == 3,
        (Family::Mean, Transform::Diff, _) => style % 8 == 6,
        (Family::Mean, _, _) => style % 10 == 6,
        (Family::Unpaired, _, _) => matches!(style % 10, 4 | 8),
        (Family::Count, _, _) => false,
    }
}
