//! Engine A command line.
//!
//!   sim run <C05|C08|C09|C11|C20> <quick|thorough> --out <partial-evidence.json> [--replays <dir>]
//!   sim replay <file>        exit 1 and a REPRODUCED line if the recorded violation reproduces
//!   sim digest <PROP> <n>    prints per-run event-log digests (determinism self-test)
//!
//! Exit codes: 0 property held on everything explored, 1 violation (VIOLATION line printed after
//! minimisation and a fresh-process replay), 2 harness error.

mod exact;
mod free;
mod machines;
mod minimize;
mod oracle;
mod rng;
mod runner;
mod tape;
mod world;

use free::{SizeClass, Trace};
use machines::Machine;
use oracle::{Stats, Violation};
use runner::{Batch, JobOut};
use serde_json::{json, Value};
use std::path::{Path, PathBuf};

pub const DEFAULT_SEED: u64 = 20260929;

fn verif_seed() -> u64 {
    std::env::var("VERIF_SEED").ok().and_then(|s| s.trim().parse::<u64>().ok()).unwrap_or(DEFAULT_SEED)
}

fn exec_generic<M: Machine>(tr: &Trace, stats: &mut Stats) -> (Option<Violation>, free::Reach) {
    match tr.config.as_str() {
        "free" | "trees" | "long" => free::exec::<M>(tr, stats),
        other => panic!("config {other} is not executable by this build"),
    }
}

pub fn exec_trace(tr: &Trace, stats: &mut Stats) -> (Option<Violation>, free::Reach) {
    dispatch_machine!(tr.machine.as_str(), exec_generic, tr, stats)
}

fn gen_free<M: Machine>(property: &str, seed: u64, run: u64, size: SizeClass) -> Trace {
    free::generate::<M>(property, seed, run, size)
}

fn is_nontrivial(tr: &Trace) -> bool {
    use world::Event;
    let merges = tr.events.iter().filter(|e| matches!(e, Event::Merge { .. })).count();
    let delivers = tr.events.iter().filter(|e| matches!(e, Event::Deliver { len, .. } if *len > 0)).count();
    merges >= 1 && delivers >= 2
}

fn free_batch(property: &'static str, machines: &'static [&'static str], runs_per_machine: u64, size: SizeClass, seed: u64, label: &str) -> Batch {
    let nm = machines.len() as u64;
    let machine_of = move |j: u64| ((j % nm) as u32, machines[(j % nm) as usize].to_string());
    runner::run_batch(label, runs_per_machine * nm, 3 * machines.len(), &machine_of, move |j, stats| {
        let m = machines[(j % nm) as usize];
        let run = j / nm;
        let tr: Trace = dispatch_machine!(m, gen_free, property, seed, run, size);
        let (violation, reach) = exec_trace(&tr, stats);
        let nontrivial = is_nontrivial(&tr);
        let keep = violation.is_some() || j < 3 * nm;
        JobOut { trace: if keep { Some(tr) } else { None }, violation, reach, nontrivial, fired: vec![] }
    })
}

const C08_MACHINES: [&str; 4] = ["KahanSum<f32>", "KahanSum<f64>", "Arithmetic<f32>", "Arithmetic<f64>"];
const C09_MACHINES: [&str; 12] = [
    "Arithmetic<f32>",
    "Arithmetic<f64>",
    "Geometric<f32>",
    "Geometric<f64>",
    "Harmonic<f32>",
    "Harmonic<f64>",
    "Paired<f32>",
    "Paired<f64>",
    "Unpaired<f32>",
    "Unpaired<f64>",
    "proportion::Stats",
    "quantile::Stats",
];

struct Ctx {
    property: String,
    tier: String,
    seed: u64,
    out: PathBuf,
    replays: PathBuf,
    t0: std::time::Instant,
}

/// Minimise, persist, replay in a fresh process; prints the VIOLATION line. Returns the path.
fn report_violation(ctx: &Ctx, tr: &Trace) -> PathBuf {
    let v = tr.violation.as_ref().expect("violation");
    eprintln!("[sim] violation found: property={} invariant={} machine={} run={} : {}", v.property, v.invariant, tr.machine, tr.run_index, v.detail);
    let exec = |t: &Trace| -> Option<Violation> {
        let mut st = Stats::default();
        exec_trace(t, &mut st).0
    };
    let mut budget = minimize::Budget::new(2000, 20);
    let min = minimize::minimize(tr, &exec, &mut budget);
    eprintln!("[sim] minimised {} -> {} events in {} re-executions", tr.events.len(), min.events.len(), budget.used);
    std::fs::create_dir_all(&ctx.replays).ok();
    let mv = min.violation.as_ref().unwrap();
    let name = format!("{}-{}-{}-{}.json", mv.property, mv.invariant, tr.machine.replace(['<', '>', ':'], "_"), tr.run_index);
    let path = ctx.replays.join(name);
    let mut j = min.to_json();
    j["original_event_count"] = json!(tr.events.len());
    j["minimiser_executions"] = json!(budget.used);
    std::fs::write(&path, serde_json::to_string_pretty(&j).unwrap()).expect("write replay file");
    // fresh-process replay
    let exe = std::env::current_exe().expect("current_exe");
    let outp = std::process::Command::new(exe).arg("replay").arg(&path).output().expect("spawn replay");
    let so = String::from_utf8_lossy(&outp.stdout);
    let want = format!("REPRODUCED property={} invariant={}", mv.property, mv.invariant);
    if outp.status.code() != Some(1) || !so.contains(&want) {
        eprintln!("[sim] HARNESS ERROR: fresh-process replay of {} did not reproduce ({:?}): {}", path.display(), outp.status.code(), so);
        std::process::exit(2);
    }
    println!("[sim] {}: {}", mv.invariant, mv.detail);
    println!("VIOLATION property={} replay={}", mv.property, path.display());
    path
}

fn write_partial(ctx: &Ctx, level: &str, batches: &[&Batch], violations: u64, rule: &str, assumptions: &[&str], extra: Value) {
    let evaluations: u64 = batches.iter().map(|b| b.evaluations).sum();
    let distinct: u64 = batches.iter().map(|b| b.nontrivial_shapes.len() as u64).sum();
    let mut samples: Vec<Value> = Vec::new();
    for b in batches {
        samples.extend(b.samples.iter().take(6).cloned());
    }
    let wall = ctx.t0.elapsed().as_secs_f64();
    let steps: u64 = batches.iter().map(|b| b.steps).sum();
    let j = json!({
        "property_id": ctx.property,
        "tier": ctx.tier,
        "seed": ctx.seed,
        "level": level,
        "coverage": {
            "evaluations": evaluations,
            "distinct_nontrivial": distinct,
            "rule": rule,
            "samples": samples,
            "engine_A": {
                "batches": batches.iter().map(|b| b.to_json()).collect::<Vec<_>>(),
                "simulated_time_steps": steps,
                "runs_per_hour": if wall > 0.0 { evaluations as f64 / wall * 3600.0 } else { 0.0 },
                "worker_threads": runner::n_workers(),
            },
            "extra": extra,
        },
        "assumptions": assumptions,
        "wall_s": wall,
        "violations": violations,
    });
    if let Some(p) = ctx.out.parent() {
        std::fs::create_dir_all(p).ok();
    }
    std::fs::write(&ctx.out, serde_json::to_string_pretty(&j).unwrap()).expect("write partial evidence");
}

fn run_c08(ctx: &Ctx) -> i32 {
    let thorough = ctx.tier == "thorough";
    let (n_small, n_med) = if thorough { (400_000, 60_000) } else { (40_000, 6_000) };
    let b1 = free_batch("C08", &C08_MACHINES, n_small, SizeClass::Small, ctx.seed, "free/small(2..64 records)");
    let b2 = if b1.violation.is_none() {
        free_batch("C08", &C08_MACHINES, n_med, SizeClass::Medium, ctx.seed ^ 0x11, "free/medium(2..4096 records)")
    } else {
        Batch::default()
    };
    let rule = "one evaluation = one seeded history (deliveries in 6 register styles, merges in 4 orientations, forks, empty operands, queries, final reduction by one of 5 merge policies) executed on the real KahanSum/Arithmetic and checked against the exact rational sum; distinct = distinct event-shape sequences (event kind, style, operator, chunk-length bucket; data erased); non-trivial = at least one merge and two non-empty deliveries";
    let assumptions = ["exact reference = fixed-point super-accumulator + num-bigint (sim/src/exact.rs)", "K = 8, bound (K*u + 4*n*u^2)*sum|x| (DESIGN 5.2)", "tape magnitudes bounded so that no sum overflows"];
    let viol = b1.violation.as_ref().or(b2.violation.as_ref());
    if let Some(tr) = viol {
        report_violation(ctx, tr);
        write_partial(ctx, "exploration", &[&b1, &b2], 1, rule, &assumptions, json!({}));
        return 1;
    }
    write_partial(ctx, "exploration", &[&b1, &b2], 0, rule, &assumptions, json!({}));
    0
}

fn run_c09(ctx: &Ctx) -> i32 {
    let thorough = ctx.tier == "thorough";
    let (n_small, n_med) = if thorough { (150_000, 20_000) } else { (15_000, 2_000) };
    let b1 = free_batch("C09", &C09_MACHINES, n_small, SizeClass::Small, ctx.seed, "free/small(2..64 records)");
    let b2 = if b1.violation.is_none() {
        free_batch("C09", &C09_MACHINES, n_med, SizeClass::Medium, ctx.seed ^ 0x22, "free/medium(2..4096 records)")
    } else {
        Batch::default()
    };
    let rule = "one evaluation = one seeded API-call program over {new/default, append, extend (Vec/VecDeque/LinkedList/Option/array), from_iter, copy/clone, +, +=, inherent add, merge with empty, query} delivering a multiset to one of 12 machine kinds, compared with the batch computation of the same multiset; distinct = distinct event-shape sequences (data erased); non-trivial = at least one merge and two non-empty deliveries";
    let assumptions = ["tolerances are first-order rounding bounds with K = 8, c_v = 40 (DESIGN 5.3); below the conditioning threshold only count and mean are compared", "exact reference = sim/src/exact.rs"];
    let viol = b1.violation.as_ref().or(b2.violation.as_ref());
    if let Some(tr) = viol {
        report_violation(ctx, tr);
        write_partial(ctx, "exploration", &[&b1, &b2], 1, rule, &assumptions, json!({}));
        return 1;
    }
    write_partial(ctx, "exploration", &[&b1, &b2], 0, rule, &assumptions, json!({}));
    0
}

fn main() {
    machines::install_panic_hook();
    let args: Vec<String> = std::env::args().collect();
    if args.len() < 2 {
        eprintln!("usage: sim run <PROP> <tier> --out <file> | sim replay <file> | sim digest <PROP> <n>");
        std::process::exit(2);
    }
    match args[1].as_str() {
        "run" => {
            if args.len() < 4 {
                eprintln!("usage: sim run <PROP> <quick|thorough> --out <file> [--replays <dir>]");
                std::process::exit(2);
            }
            let mut out = PathBuf::from("/verif/target/partial/out.json");
            let mut replays = PathBuf::from("/verif/replays");
            let mut i = 4;
            while i < args.len() {
                match args[i].as_str() {
                    "--out" => {
                        out = PathBuf::from(&args[i + 1]);
                        i += 2;
                    }
                    "--replays" => {
                        replays = PathBuf::from(&args[i + 1]);
                        i += 2;
                    }
                    other => {
                        eprintln!("unknown argument {other}");
                        std::process::exit(2);
                    }
                }
            }
            let ctx = Ctx { property: args[2].clone(), tier: args[3].clone(), seed: verif_seed(), out, replays, t0: std::time::Instant::now() };
            println!("[sim] VERIF_SEED={} property={} tier={} workers={}", ctx.seed, ctx.property, ctx.tier, runner::n_workers());
            let code = match ctx.property.as_str() {
                "C08" => run_c08(&ctx),
                "C09" => run_c09(&ctx),
                other => {
                    eprintln!("property {other} has no Engine A check in this build");
                    2
                }
            };
            std::process::exit(code);
        }
        "replay" => {
            let path = Path::new(&args[2]);
            let txt = match std::fs::read_to_string(path) {
                Ok(t) => t,
                Err(e) => {
                    eprintln!("cannot read {}: {e}", path.display());
                    std::process::exit(2);
                }
            };
            let v: Value = match serde_json::from_str(&txt) {
                Ok(v) => v,
                Err(e) => {
                    eprintln!("bad replay file: {e}");
                    std::process::exit(2);
                }
            };
            let tr = match Trace::from_json(&v) {
                Ok(t) => t,
                Err(e) => {
                    eprintln!("bad replay file: {e}");
                    std::process::exit(2);
                }
            };
            let mut st = Stats::default();
            let (viol, _) = exec_trace(&tr, &mut st);
            match (viol, &tr.violation) {
                (Some(v), Some(rec)) if v.key() == rec.key() => {
                    println!("REPRODUCED property={} invariant={} slot={} : {}", v.property, v.invariant, v.slot, v.detail);
                    std::process::exit(1);
                }
                (Some(v), _) => {
                    println!("DIFFERENT violation on replay: property={} invariant={} : {}", v.property, v.invariant, v.detail);
                    std::process::exit(if tr.violation.is_some() { 2 } else { 1 });
                }
                (None, Some(rec)) => {
                    println!("NOT REPRODUCED: recorded {} / {} does not occur on this tree", rec.property, rec.invariant);
                    std::process::exit(0);
                }
                (None, None) => {
                    println!("trace passes");
                    std::process::exit(0);
                }
            }
        }
        "digest" => {
            // per-run digests of generated event lists + outcomes, for the determinism self-test
            let prop: &'static str = match args[2].as_str() {
                "C08" => "C08",
                _ => "C09",
            };
            let n: u64 = args[3].parse().unwrap_or(64);
            let machines: &'static [&'static str] = if prop == "C08" { &C08_MACHINES } else { &C09_MACHINES };
            let seed = verif_seed();
            let b = free_batch(prop, machines, n, SizeClass::Small, seed, "digest");
            let mut shapes: Vec<u64> = b.shapes.iter().copied().collect();
            shapes.sort_unstable();
            let mut d = rng::Digest::new();
            for s in &shapes {
                d.u64(*s);
            }
            println!("seed={} evaluations={} shapes={} digest={:016x} counters={:?} worst={:?} violation={}", seed, b.evaluations, shapes.len(), d.0, b.stats.counters, b.stats.worst.iter().map(|(k, v)| (k.clone(), v.to_bits())).collect::<Vec<_>>(), b.violation.is_some());
        }
        other => {
            eprintln!("unknown command {other}");
            std::process::exit(2);
        }
    }
}
