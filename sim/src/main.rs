//! Engine A command line.
//!
//!   sim run <C05|C08|C09|C11|C20> <quick|thorough> --out <partial-evidence.json> [--replays <dir>] [--known <file>]
//!   sim replay <file>        exit 1 and a REPRODUCED line if the recorded violation reproduces
//!   sim digest <PROP> <n>    prints per-batch digests (determinism self-test)
//!
//! Exit codes: 0 property held on everything explored (KNOWN-FINDING lines possible), 1 violation
//! (VIOLATION line printed after minimisation and a fresh-process replay), 2 harness error.

mod cases;
#[cfg(feature = "serde-roundtrip")]
mod ckpt;
mod exact;
mod faulty;
mod free;
mod machines;
mod minimize;
mod oracle;
mod plans;
mod rng;
mod runner;
mod tape;
#[cfg(feature = "serde-roundtrip")]
mod wire;
mod world;

use cases::Case;
use free::{Reach, SizeClass, Trace};
use machines::Machine;
use oracle::{Stats, Violation};
use runner::{Batch, JobOut};
use serde_json::{json, Value};
use std::collections::{BTreeMap, BTreeSet};
use std::path::{Path, PathBuf};

pub const DEFAULT_SEED: u64 = 20260929;

fn verif_seed() -> u64 {
    std::env::var("VERIF_SEED").ok().and_then(|s| s.trim().parse::<u64>().ok()).unwrap_or(DEFAULT_SEED)
}

/// A replayable artifact.
#[derive(Clone, Debug)]
pub enum Art {
    Trace(Trace),
    Case(Case),
    /// a process history: the cases are served one after the other by one fresh process; the
    /// last one is judged (the earlier ones are what the process went through before)
    Session(Vec<Case>),
}

impl Art {
    fn to_json(&self, v: &Violation) -> Value {
        match self {
            Art::Trace(t) => {
                let mut t = t.clone();
                t.violation = Some(v.clone());
                t.to_json()
            }
            Art::Case(c) => json!({
                "engine": "A", "config": "fault-case", "property": v.property, "machine": c.entry.name(),
                "case": c.to_json(),
                "violation": {"property": v.property, "invariant": v.invariant, "slot": v.slot, "detail": v.detail},
            }),
            Art::Session(cs) => json!({
                "engine": "A", "config": "fault-session", "property": v.property, "machine": cs.last().map(|c| c.entry.name()).unwrap_or(""),
                "cases": cs.iter().map(|c| c.to_json()).collect::<Vec<_>>(),
                "note": "the cases are served in this order by one fresh process; the last one is judged",
                "violation": {"property": v.property, "invariant": v.invariant, "slot": v.slot, "detail": v.detail},
            }),
        }
    }
    fn label(&self) -> String {
        match self {
            Art::Trace(t) => format!("{}-{}", t.machine, t.run_index),
            Art::Case(c) => c.entry.name().to_string(),
            Art::Session(cs) => format!("session-{}", cs.last().map(|c| c.entry.name()).unwrap_or("")),
        }
    }
}

fn known_keys() -> &'static BTreeSet<String> {
    static K: std::sync::OnceLock<BTreeSet<String>> = std::sync::OnceLock::new();
    K.get_or_init(|| load_known().into_iter().map(|(_, k, _)| k).collect())
}

/// (property, match key, text) of every `open:` line of the known-findings file
fn load_known() -> Vec<(String, String, String)> {
    let path = std::env::var("VERIF_KNOWN").unwrap_or_else(|_| "/verif/KNOWN_FINDINGS.txt".into());
    let mut out = Vec::new();
    if let Ok(txt) = std::fs::read_to_string(path) {
        for line in txt.lines() {
            let line = line.trim();
            if let Some(rest) = line.strip_prefix("open:") {
                let mut prop = String::new();
                let mut key = String::new();
                let mut text = Vec::new();
                for w in rest.split_whitespace() {
                    if let Some(p) = w.strip_prefix("property=") {
                        if prop.is_empty() {
                            prop = p.to_string();
                            continue;
                        }
                    }
                    if let Some(k) = w.strip_prefix("match=") {
                        if key.is_empty() {
                            key = k.to_string();
                            continue;
                        }
                    }
                    text.push(w);
                }
                out.push((prop, key, text.join(" ")));
            }
        }
    }
    out
}

fn exec_free_generic<M: Machine>(tr: &Trace, stats: &mut Stats) -> (Vec<Violation>, Reach, Vec<(String, u64)>) {
    let (v, r) = free::exec::<M>(tr, stats);
    (v.into_iter().collect(), r, vec![])
}
fn exec_fault_generic<M: Machine>(tr: &Trace, stats: &mut Stats) -> (Vec<Violation>, Reach, Vec<(String, u64)>) {
    faulty::exec::<M>(tr, stats, known_keys())
}

/// "Other tenants were served before": a fixed program of unrelated requests against the public
/// API (every statistics kind, many sample sizes and variance ratios so that Welch's effective
/// degrees of freedom sweep the range 1..200 with different fractional parts, all 30
/// confidences). Results are ignored. An isolated run executes it first, so that state hidden in
/// the library (a cache, a lazily initialised table) is already populated by *foreign* requests
/// when the run's own requests arrive; the pristine thread / process it is compared with does not.
pub fn prelude() {
    use stats_ci::comparison::{Paired, Unpaired};
    use stats_ci::mean::{Arithmetic, Geometric, Harmonic};
    let confs = [18u8, 19, 20, 0, 27];
    let _ = machines::guard(|| {
        for n in [2usize, 5, 32, 100] {
            let xs: Vec<f64> = (0..n).map(|i| 1.0 + ((i * 37 % 11) as f64) * 0.5).collect();
            let ys: Vec<f32> = xs.iter().map(|&x| x as f32).collect();
            for &c in &confs {
                let cf = machines::conf(c);
                let _ = Arithmetic::<f64>::ci(cf, &xs);
                let _ = Geometric::<f64>::ci(cf, &xs);
                let _ = Harmonic::<f32>::ci(cf, &ys);
                let _ = Paired::<f64>::ci(cf, &xs, &xs.iter().map(|x| x * 0.9 + 0.1).collect::<Vec<f64>>());
                let _ = stats_ci::proportion::ci(cf, n * 10, n * 3);
                let _ = stats_ci::quantile::ci_indices(cf, n * 4, 0.5);
            }
        }
        // Welch: sweep the effective degrees of freedom densely over the small-sample range
        for na in 2usize..=12 {
            for nb in 2usize..=12 {
                for ratio in [0.05f64, 0.6, 1.9, 25.0] {
                    let a: Vec<f64> = (0..na).map(|i| (i as f64 * 1.7).sin() * ratio + 3.0).collect();
                    let b: Vec<f64> = (0..nb).map(|i| (i as f64 * 2.3).cos() + 1.0).collect();
                    if let Ok(u) = Unpaired::<f64>::from_iter(&a, &b) {
                        for &c in &confs[..3] {
                            let _ = u.ci_mean(machines::conf(c));
                        }
                    }
                }
            }
        }
    });
}

pub fn exec_trace(tr: &Trace, stats: &mut Stats) -> (Vec<Violation>, Reach, Vec<(String, u64)>) {
    if tr.isolated {
        // fresh OS thread: no thread-local state of the library survives from earlier runs;
        // the foreign-request prelude runs first on that thread
        let (r, st) = std::thread::scope(|sc| {
            sc.spawn(|| {
                // every 256th run: foreign requests are served first on this thread
                if tr.run_index % 256 == 0 && std::env::var("SIM_NO_PRELUDE").is_err() {
                    prelude();
                    // ... and a neighbour tenant keeps working on this thread between the run's
                    // own deliveries
                    machines::NEIGHBOUR.with(|n| n.set(true));
                }
                let mut st = Stats::default();
                let r = exec_trace_here(tr, &mut st);
                (r, st)
            })
            .join()
            .expect("isolated run thread panicked (harness error)")
        });
        stats.merge(&st);
        return r;
    }
    exec_trace_here(tr, stats)
}

fn exec_trace_here(tr: &Trace, stats: &mut Stats) -> (Vec<Violation>, Reach, Vec<(String, u64)>) {
    match tr.config.as_str() {
        "free" | "trees" | "long" => dispatch_machine!(tr.machine.as_str(), exec_free_generic, tr, stats),
        "fault" => dispatch_machine!(tr.machine.as_str(), exec_fault_generic, tr, stats),
        #[cfg(feature = "serde-roundtrip")]
        "checkpoint" => exec_ckpt(tr, stats),
        other => panic!("config {other} is not executable by this build (checkpoint traces need the serde-roundtrip feature)"),
    }
}

#[cfg(feature = "serde-roundtrip")]
macro_rules! dispatch_ckpt {
    ($name:expr, $f:ident, $($args:expr),*) => {{
        use machines::*;
        match $name {
            "Arithmetic<f32>" => $f::<MArith<f32>>($($args),*),
            "Arithmetic<f64>" => $f::<MArith<f64>>($($args),*),
            "Geometric<f32>" => $f::<MGeo<f32>>($($args),*),
            "Geometric<f64>" => $f::<MGeo<f64>>($($args),*),
            "Harmonic<f32>" => $f::<MHarm<f32>>($($args),*),
            "Harmonic<f64>" => $f::<MHarm<f64>>($($args),*),
            "Paired<f32>" => $f::<MPaired<f32>>($($args),*),
            "Paired<f64>" => $f::<MPaired<f64>>($($args),*),
            "Unpaired<f32>" => $f::<MUnpaired<f32>>($($args),*),
            "Unpaired<f64>" => $f::<MUnpaired<f64>>($($args),*),
            "proportion::Stats" => $f::<MProp>($($args),*),
            other => panic!("machine {other} has no serde support"),
        }
    }};
}

#[cfg(feature = "serde-roundtrip")]
fn exec_ckpt(tr: &Trace, stats: &mut Stats) -> (Vec<Violation>, Reach, Vec<(String, u64)>) {
    { use ckpt::exec as ckpt_exec; dispatch_ckpt!(tr.machine.as_str(), ckpt_exec, tr, stats) }
}

#[cfg(feature = "serde-roundtrip")]
const C20_MACHINES: [&str; 11] = [
    "Arithmetic<f32>",
    "Arithmetic<f64>",
    "Geometric<f32>",
    "Geometric<f64>",
    "Harmonic<f32>",
    "Harmonic<f64>",
    "Paired<f32>",
    "Paired<f64>",
    "Unpaired<f32>",
    "Unpaired<f64>",
    "proportion::Stats",
];

#[cfg(feature = "serde-roundtrip")]
fn run_c20(ctx: &Ctx) -> i32 {
    let thorough = ctx.tier == "thorough";
    let n: u64 = if thorough { 200_000 } else { 20_000 };
    let nm = C20_MACHINES.len() as u64;
    let seed = ctx.seed;
    let b1: Batch<Art> = runner::run_batch("seeded checkpoint / crash-restore histories with a never-restarted twin", n * nm, false, move |j, stats| {
        let m = C20_MACHINES[(j % nm) as usize];
        let run = j / nm;
        use ckpt::generate as ckpt_generate;
        let tr: Trace = dispatch_ckpt!(m, ckpt_generate, seed, run);
        trace_job(tr, (j % nm) as u32, stats, j < nm)
    });
    let rule = "one evaluation = one seeded accumulation history (deliveries in every style, merges, forks, empty operands, queries) on a real state and its never-restarted twin, with a chaos task that checkpoints (serialize to an in-memory durable store with the lossless wire encoder or serde_json) at instants biased to land right after merges, forks and first deliveries, and crashes (state discarded, last checkpoint deserialized, deliveries since re-applied); distinct = distinct event-shape sequences; non-trivial = at least one merge and two non-empty deliveries";
    let assumptions = ["JSON is used only for f64 and integer states (not a lossless carrier for f32 text in general) and only for finite states", "torn / corrupted checkpoints are not injected: C20 promises a lossless round trip of what was written, not corruption detection"];
    let new = report_all(ctx, &[&b1]);
    write_partial(ctx, "exploration", &[&b1], new, rule, &assumptions, json!({}), None);
    if new > 0 {
        1
    } else {
        0
    }
}
#[cfg(not(feature = "serde-roundtrip"))]
fn run_c20(_ctx: &Ctx) -> i32 {
    eprintln!("C20's checkpoint configuration needs the serde-roundtrip feature");
    2
}

fn exec_art(a: &Art, stats: &mut Stats) -> Vec<Violation> {
    match a {
        Art::Trace(t) => {
            let (mut v, _reach, _) = exec_trace(t, stats);
            if v.is_empty() && t.extra.get("process_history_check").and_then(|x| x.as_bool()) == Some(true) {
                if let Some(x) = process_history_violation(t) {
                    v.push(x);
                }
            }
            v
        }
        Art::Case(c) => cases::judge(c, &cases::run_case(c)),
        Art::Session(cs) => exec_session(cs),
    }
}

/// Serves the cases in order (in this process, on this thread) and judges the last one. A
/// violation is re-keyed so that it cannot be confused with the same case failing on its own.
fn exec_session(cs: &[Case]) -> Vec<Violation> {
    let Some((last, before)) = cs.split_last() else { return vec![] };
    for c in before {
        let _ = cases::run_case(c);
    }
    let mut v = cases::judge(last, &cases::run_case(last));
    for x in v.iter_mut() {
        x.invariant = format!("after-earlier-requests-in-the-same-process/{}", x.invariant);
    }
    v
}

fn gen_free<M: Machine>(property: &str, seed: u64, run: u64, size: SizeClass) -> Trace {
    free::generate::<M>(property, seed, run, size)
}
fn gen_tree<M: Machine>(seed: u64, sched: u64, data_no: u64) -> Trace {
    plans::generate_tree_run::<M>(seed, sched, data_no)
}
fn gen_long<M: Machine>(seed: u64, run: u64, max_pow10: u32) -> Trace {
    plans::generate_long_run::<M>(seed, run, max_pow10)
}
fn gen_long_c09<M: Machine>(seed: u64, run: u64) -> Trace {
    plans::generate_long_c09::<M>(seed, run)
}
fn gen_fault<M: Machine>(property: &str, seed: u64, run: u64, mode: faulty::Mode) -> Trace {
    faulty::generate::<M>(property, seed, run, mode)
}
fn gen_fault_long<M: Machine>(property: &str, seed: u64, run: u64) -> Trace {
    faulty::generate_long_fault::<M>(property, seed, run)
}
fn enum_nonpos<M: Machine>(seed: u64, max_len: usize) -> Vec<Trace> {
    faulty::enumerate_nonpositive::<M>(seed, max_len)
}

fn is_nontrivial(tr: &Trace) -> bool {
    use world::Event;
    let merges = tr.events.iter().filter(|e| matches!(e, Event::Merge { .. })).count();
    let delivers = tr.events.iter().filter(|e| matches!(e, Event::Deliver { len, .. } | Event::Fault { len, .. } if *len > 0)).count();
    let faults = tr.events.iter().filter(|e| matches!(e, Event::Fault { .. })).count();
    (merges >= 1 && delivers >= 2) || faults >= 1
}

/// a compact, human-readable rendering of a run for the evidence file
pub fn sample_of(t: &Trace) -> Value {
    let evs: Vec<String> = t.events.iter().take(16).map(|e| format!("{:?}", e)).collect();
    let tb = |t: &tape::TapeSpec| match t {
        tape::TapeSpec::Explicit(v) => json!({"explicit_len": v.len()}),
        tape::TapeSpec::Gen { family, len, scale_exp, .. } => json!({"family": tape::FAMILY_NAMES[*family as usize % tape::FAMILY_NAMES.len()], "len": len, "scale_exp": scale_exp}),
    };
    json!({
        "config": t.config, "machine": t.machine, "run_index": t.run_index,
        "tapes": [tb(&t.tapes[0]), tb(&t.tapes[1])],
        "exact_data": t.exact_data, "knobs": t.knobs, "n_events": t.events.len(), "first_events": evs,
    })
}

/// Every 2048th run (an isolated one) is additionally replayed in a FRESH PROCESS: what the
/// slots answer at the end must be bit-identical there. A difference means that an answer
/// depends on what this process computed before (process-global hidden state in the library);
/// the parent's answers are stored in the replay file, so replaying it (in yet another fresh
/// process) reproduces the difference exactly.
fn fresh_process_obs(tr: &Trace, with_prelude: bool) -> Option<Vec<String>> {
    static N: std::sync::atomic::AtomicU64 = std::sync::atomic::AtomicU64::new(0);
    let k = N.fetch_add(1, std::sync::atomic::Ordering::Relaxed);
    let path = std::env::temp_dir().join(format!("sim-obs-{}-{}.json", std::process::id(), k));
    std::fs::write(&path, serde_json::to_string(&tr.to_json()).ok()?).ok()?;
    let exe = std::env::current_exe().ok()?;
    let mut cmd = std::process::Command::new(exe);
    cmd.arg("obs").arg(&path);
    if !with_prelude {
        cmd.env("SIM_NO_PRELUDE", "1");
    } else {
        cmd.env_remove("SIM_NO_PRELUDE");
    }
    let out = cmd.output().ok();
    std::fs::remove_file(&path).ok();
    let out = out?;
    if !out.status.success() {
        return None;
    }
    Some(String::from_utf8_lossy(&out.stdout).lines().filter(|l| l.starts_with("slot ")).map(|l| l.to_string()).collect())
}

/// Both sides run in fresh processes, so the comparison is deterministic: one process serves
/// only this trace, the other serves the foreign-request prelude first.
fn process_history_violation(tr: &Trace) -> Option<Violation> {
    let pristine = fresh_process_obs(tr, false)?;
    let busy = fresh_process_obs(tr, true)?;
    if pristine == busy {
        return None;
    }
    let d = busy.iter().zip(pristine.iter()).find(|(a, b)| a != b).map(|(a, b)| format!("process that served other requests first: {a} || pristine process: {b}")).unwrap_or_else(|| format!("{} vs {} slots", busy.len(), pristine.len()));
    Some(Violation::new("C09", "answer-depends-on-what-the-process-computed-before", 0, d))
}

fn trace_job(tr: Trace, mi: u32, stats: &mut Stats, want_sample: bool) -> JobOut<Art> {
    let mut tr = tr;
    let (mut violations, reach, fired) = exec_trace(&tr, stats);
    if violations.is_empty() && tr.isolated && tr.run_index % 2048 == 0 && tr.property == "C09" && !reach.final_obs.is_empty() {
        stats.inc("fresh_process_comparisons");
        if let Some(v) = process_history_violation(&tr) {
            tr.extra = json!({"process_history_check": true});
            violations.push(v);
        }
    }
    let nontrivial = is_nontrivial(&tr);
    let sample = if want_sample { Some(sample_of(&tr)) } else { None };
    let label = (mi, tr.machine.clone());
    JobOut { artifact: if violations.is_empty() { None } else { Some(Art::Trace(tr)) }, violations, reach, nontrivial, fired, sample, label }
}

fn free_batch(property: &'static str, machines: &'static [&'static str], runs_per_machine: u64, size: SizeClass, seed: u64, label: &str) -> Batch<Art> {
    let nm = machines.len() as u64;
    runner::run_batch(label, runs_per_machine * nm, true, move |j, stats| {
        let m = machines[(j % nm) as usize];
        let run = j / nm;
        let tr: Trace = dispatch_machine!(m, gen_free, property, seed, run, size);
        trace_job(tr, (j % nm) as u32, stats, j < 2 * nm)
    })
}

fn fault_batch(property: &'static str, machines: &'static [&'static str], runs_per_machine: u64, mode: faulty::Mode, seed: u64, label: &str) -> Batch<Art> {
    let nm = machines.len() as u64;
    runner::run_batch(label, runs_per_machine * nm, false, move |j, stats| {
        let m = machines[(j % nm) as usize];
        let run = j / nm;
        let tr: Trace = dispatch_machine!(m, gen_fault, property, seed, run, mode);
        trace_job(tr, (j % nm) as u32, stats, j < nm)
    })
}

const C08_MACHINES: [&str; 4] = ["KahanSum<f32>", "KahanSum<f64>", "Arithmetic<f32>", "Arithmetic<f64>"];
const C09_MACHINES: [&str; 12] = [
    "Arithmetic<f32>",
    "Arithmetic<f64>",
    "Geometric<f32>",
    "Geometric<f64>",
    "Harmonic<f32>",
    "Harmonic<f64>",
    "Paired<f32>",
    "Paired<f64>",
    "Unpaired<f32>",
    "Unpaired<f64>",
    "proportion::Stats",
    "quantile::Stats",
];
const C08_REFUSAL_MACHINES: [&str; 2] = ["Paired<f32>", "Paired<f64>"];
const C05_MACHINES: [&str; 4] = ["Geometric<f32>", "Geometric<f64>", "Harmonic<f32>", "Harmonic<f64>"];

struct Ctx {
    property: String,
    tier: String,
    seed: u64,
    out: PathBuf,
    replays: PathBuf,
    t0: std::time::Instant,
}

/// Minimise, persist, replay in a fresh process; prints VIOLATION or KNOWN-FINDING. Returns
/// true if the violation is a new one (not listed as an open known finding).
/// set when a violation was seen whose replay file does not reproduce it in a fresh process
static UNREPLAYABLE: std::sync::atomic::AtomicBool = std::sync::atomic::AtomicBool::new(false);

fn report(ctx: &Ctx, art: &Art, v: &Violation) -> bool {
    let known = load_known();
    if let Some((_, k, text)) = known.iter().find(|(p, k, _)| *p == v.property && *k == v.invariant) {
        println!("KNOWN-FINDING: property={} {} : {}", v.property, k, text);
        return false;
    }
    eprintln!("[sim] violation: property={} invariant={} at {} : {}", v.property, v.invariant, art.label(), v.detail);
    let key = v.key();
    let (min_art, min_v, used, orig_events) = match art {
        Art::Trace(tr) => {
            let mut tr = tr.clone();
            tr.violation = Some(v.clone());
            let exec = |t: &Trace| -> Option<Violation> {
                let mut st = Stats::default();
                exec_trace(t, &mut st).0.into_iter().find(|x| x.key() == key)
            };
            let mut budget = minimize::Budget::new(2000, 20);
            let min = minimize::minimize(&tr, &exec, &mut budget);
            eprintln!("[sim] minimised {} -> {} events in {} re-executions", tr.events.len(), min.events.len(), budget.used);
            let mv = min.violation.clone().unwrap();
            (Art::Trace(min), mv, budget.used, tr.events.len())
        }
        Art::Case(c) => (Art::Case(minimize_case(c, &key)), v.clone(), 0, 0),
        Art::Session(cs) => (Art::Session(cs.clone()), v.clone(), 0, cs.len()),
    };
    // re-derive the violation text of the minimised artifact
    let min_v = {
        let mut st = Stats::default();
        exec_art(&min_art, &mut st).into_iter().find(|x| x.key() == key).unwrap_or(min_v)
    };
    std::fs::create_dir_all(&ctx.replays).ok();
    let clean = |s: &str| s.chars().map(|c| if c.is_ascii_alphanumeric() || c == '-' || c == '_' || c == '.' { c } else { '_' }).collect::<String>();
    let name = format!("{}-{}-{}.json", min_v.property, clean(&min_v.invariant), clean(&art.label()));
    let path = ctx.replays.join(name);
    let mut j = min_art.to_json(&min_v);
    j["original_event_count"] = json!(orig_events);
    j["minimiser_executions"] = json!(used);
    std::fs::write(&path, serde_json::to_string_pretty(&j).unwrap()).expect("write replay file");
    let exe = std::env::current_exe().expect("current_exe");
    let outp = std::process::Command::new(exe).arg("replay").arg(&path).output().expect("spawn replay");
    let so = String::from_utf8_lossy(&outp.stdout);
    let want = format!("REPRODUCED property={} invariant={}", min_v.property, min_v.invariant);
    if outp.status.code() != Some(1) || !so.contains(&want) {
        eprintln!("[sim] HARNESS ERROR: fresh-process replay of {} did not reproduce ({:?}): {}", path.display(), outp.status.code(), so);
        println!("[sim] NONDETERMINISTIC-FAILURE: {} / {} was observed in this process but its replay file does not reproduce it in a fresh one. The execution was not a function of seed and trace: the library's answer depended on what this process had served before or was serving at the same time on other worker threads (process-global state inside the library). The process-history batch and Engine C own those two dimensions; without a replayable witness from them the run ends as a harness error.", min_v.property, min_v.invariant);
        UNREPLAYABLE.store(true, std::sync::atomic::Ordering::SeqCst);
        return false;
    }
    println!("[sim] {}: {}", min_v.invariant, min_v.detail);
    if min_v.property != ctx.property {
        println!("[sim] (the violated clause is keyed {} in the oracle; it was found by, and is reported under, the {} check)", min_v.property, ctx.property);
    }
    println!("VIOLATION property={} replay={}", ctx.property, path.display());
    true
}

/// shrink a fault case: shorter streams while the same violation key persists
fn minimize_case(c: &Case, key: &(String, String)) -> Case {
    let fails = |c: &Case| cases::judge(c, &cases::run_case(c)).iter().any(|v| v.key() == *key);
    let mut best = c.clone();
    let mut progress = true;
    while progress {
        progress = false;
        for which in 0..2 {
            let len = if which == 0 { best.a.len() } else { best.b.len() };
            for i in 0..len {
                let mut cand = best.clone();
                if which == 0 {
                    cand.a.remove(i);
                } else {
                    cand.b.remove(i);
                }
                if fails(&cand) {
                    best = cand;
                    progress = true;
                    break;
                }
            }
        }
    }
    best
}

/// Reports every distinct violation of the batches; returns the number of new (unknown) ones.
fn report_all(ctx: &Ctx, batches: &[&Batch<Art>]) -> u64 {
    let mut merged: BTreeMap<(String, String), (u64, &Art, &Violation)> = BTreeMap::new();
    for b in batches {
        for (k, (j, a, v)) in &b.violations {
            merged.entry(k.clone()).or_insert((*j, a, v));
        }
    }
    let mut new = 0;
    for (_, (_, a, v)) in merged {
        if report(ctx, a, v) {
            new += 1;
        }
    }
    new
}

#[allow(clippy::too_many_arguments)]
fn write_partial(ctx: &Ctx, level: &str, batches: &[&Batch<Art>], violations: u64, rule: &str, assumptions: &[&str], extra: Value, exhaustive_note: Option<&str>) {
    let evaluations: u64 = batches.iter().map(|b| b.evaluations).sum();
    let distinct: u64 = batches.iter().map(|b| b.nontrivial_shapes.len() as u64).sum();
    let mut samples: Vec<Value> = Vec::new();
    for b in batches {
        samples.extend(b.samples.iter().take(4).cloned());
    }
    let wall = ctx.t0.elapsed().as_secs_f64();
    let steps: u64 = batches.iter().map(|b| b.steps).sum();
    let mut fired: BTreeMap<String, u64> = BTreeMap::new();
    for b in batches {
        for (k, v) in &b.fired {
            *fired.entry(k.clone()).or_insert(0) += v;
        }
    }
    let mut cov = json!({
        "evaluations": evaluations,
        "distinct_nontrivial": distinct,
        "rule": rule,
        "samples": samples,
        "engine_A": {
            "batches": batches.iter().map(|b| b.to_json()).collect::<Vec<_>>(),
            "simulated_time_steps": steps,
            "runs_per_hour": if wall > 0.0 { evaluations as f64 / wall * 3600.0 } else { 0.0 },
            "worker_threads": runner::n_workers(),
            "fault_kinds_fired": fired,
        },
        "extra": extra,
    });
    if let Some(n) = exhaustive_note {
        cov["exhaustive_subspaces"] = json!(n);
    }
    let j = json!({
        "property_id": ctx.property, "tier": ctx.tier, "seed": ctx.seed, "level": level,
        "coverage": cov, "assumptions": assumptions, "wall_s": wall, "violations": violations,
    });
    if let Some(p) = ctx.out.parent() {
        std::fs::create_dir_all(p).ok();
    }
    std::fs::write(&ctx.out, serde_json::to_string_pretty(&j).unwrap()).expect("write partial evidence");
}

fn run_c08(ctx: &Ctx) -> i32 {
    let thorough = ctx.tier == "thorough";
    let (n_small, n_med) = if thorough { (1_000_000, 150_000) } else { (100_000, 8_000) };
    let b1 = free_batch("C08", &C08_MACHINES, n_small, SizeClass::Small, ctx.seed, "free/small(2..64 records)");
    let b2 = if b1.violations.is_empty() { free_batch("C08", &C08_MACHINES, n_med, SizeClass::Medium, ctx.seed ^ 0x11, "free/medium(2..4096 records)") } else { Batch::default() };
    // long streams: "independent of the number of terms"
    let (n_long, pow) = if thorough { (600u64, 7u32) } else { (96u64, 6u32) };
    let seed = ctx.seed;
    let b3: Batch<Art> = if b1.violations.is_empty() && b2.violations.is_empty() {
        runner::run_batch("long streams (10^5 .. 10^6 quick / 10^7 thorough records, 1 .. 10^5 chunks)", n_long, true, move |j, stats| {
            const LONG_MACHINES: [&str; 4] = ["KahanSum<f32>", "KahanSum<f64>", "Arithmetic<f32>", "Arithmetic<f64>"];
            let m = LONG_MACHINES[(j % 4) as usize];
            // f64 streams are capped one decade lower (the bound is the same, the cost is not)
            let p = if m.contains("f64") { pow - 1 } else { pow };
            let tr: Trace = dispatch_machine!(m, gen_long, seed, j / 4, p);
            trace_job(tr, (j % 4) as u32, stats, j < 4)
        })
    } else {
        Batch::default()
    };
    // histories in which a call is refused half-way (Paired::extend over streams of unequal length):
    // whatever the refused call keeps of what it consumed, the sums the state carries afterwards
    // must stay within the bound of the exact sums of the observations its count reports
    let n_ref = if thorough { 400_000 } else { 12_000 };
    let mut b4 = if b1.violations.is_empty() && b2.violations.is_empty() { fault_batch("C08", &C08_REFUSAL_MACHINES, n_ref, faulty::Mode::Totality, ctx.seed ^ 0x88, "histories containing refused calls (Paired::extend over unequal streams; sums judged against the observations the count reports)") } else { Batch::default() };
    b4.violations.retain(|_, (_, _, v)| v.property == "C08");
    let rule = "one evaluation = one seeded history (deliveries in 6 register styles, merges in 4 orientations, forks, empty operands, queries, final reduction by one of 5 merge policies) executed on the real KahanSum/Arithmetic and checked against the exact rational sum; distinct = distinct event-shape sequences (event kind, style, operator, chunk-length bucket; data erased); non-trivial = at least one merge and two non-empty deliveries";
    let assumptions = ["exact reference = fixed-point super-accumulator + num-bigint (sim/src/exact.rs)", "K = 8, bound (K*u + 4*n*u^2)*sum|x| (DESIGN 5.2)", "tape magnitudes bounded so that no sum overflows"];
    let firsts: Vec<&(u64, Art, Violation)> = [&b1, &b2, &b3, &b4].iter().filter_map(|b| b.first_violation()).collect();
    let mut new = 0;
    if let Some((_, a, v)) = firsts.first() {
        if report(ctx, a, v) {
            new = 1;
        }
    }
    write_partial(ctx, "exploration", &[&b1, &b2, &b3, &b4], new, rule, &assumptions, json!({}), None);
    if new > 0 {
        1
    } else {
        0
    }
}

fn run_c09(ctx: &Ctx) -> i32 {
    let thorough = ctx.tier == "thorough";
    let (n_small, n_med) = if thorough { (300_000, 40_000) } else { (30_000, 2_000) };
    let b1 = free_batch("C09", &C09_MACHINES, n_small, SizeClass::Small, ctx.seed, "free/small(2..64 records)");
    let b2 = if b1.violations.is_empty() { free_batch("C09", &C09_MACHINES, n_med, SizeClass::Medium, ctx.seed ^ 0x22, "free/medium(2..4096 records)") } else { Batch::default() };
    // every oriented merge tree over <= 5 chunks, with an empty chunk / empty operand at every position
    let n_sched = plans::n_schedules();
    let n_data: u64 = if thorough { 8 } else { 1 };
    let seed = ctx.seed;
    let nm = C09_MACHINES.len() as u64;
    let b3: Batch<Art> = if b1.violations.is_empty() && b2.violations.is_empty() {
        runner::run_batch("trees (every oriented binary merge tree over 2..5 chunks x empty chunk/operand at every position)", n_sched * n_data * nm, true, move |j, stats| {
            let m = C09_MACHINES[(j % nm) as usize];
            let rest = j / nm;
            let (sched, data_no) = (rest % n_sched, rest / n_sched);
            let tr: Trace = dispatch_machine!(m, gen_tree, seed, sched, data_no);
            trace_job(tr, (j % nm) as u32, stats, j < nm && j % 4 == 0)
        })
    } else {
        Batch::default()
    };
    // long streams: the sample count crosses the 100 000 boundary (Student-t -> normal quantile)
    let n_long: u64 = if thorough { 20 } else { 2 };
    let b4: Batch<Art> = if b1.violations.is_empty() && b2.violations.is_empty() && b3.violations.is_empty() {
        runner::run_batch("long streams (6*10^4 .. 3*10^5 records, chunks around the 100 000 boundary)", n_long * nm, true, move |j, stats| {
            let m = C09_MACHINES[(j % nm) as usize];
            let tr: Trace = dispatch_machine!(m, gen_long_c09, seed, j / nm);
            trace_job(tr, (j % nm) as u32, stats, j == 0)
        })
    } else {
        Batch::default()
    };
    // histories in which a call is refused (a non-positive record offered to Geometric / Harmonic):
    // the refused call delivers nothing, so the state must equal the one that received exactly the
    // accepted records. Only that clause is C09's; which error comes back is C05's business.
    let n_rej = if thorough { 200_000 } else { 4_000 };
    let mut b5 = if b1.violations.is_empty() && b2.violations.is_empty() { fault_batch("C09", &C05_MACHINES, n_rej, faulty::Mode::NonPositive, ctx.seed ^ 0x99, "histories containing refused deliveries (state = batch over the accepted records)") } else { Batch::default() };
    b5.violations.retain(|_, (_, _, v)| v.property == "C09");
    let rule = "one evaluation = one seeded API-call program over {new/default, append, extend (Vec/VecDeque/LinkedList/Option/array), from_iter, copy/clone, +, +=, inherent add, merge with empty, query} delivering a multiset to one of 12 machine kinds, compared with the batch computation of the same multiset; distinct = distinct event-shape sequences (data erased); non-trivial = at least one merge and two non-empty deliveries";
    let assumptions = ["tolerances are first-order rounding bounds with K = 8, c_v = 40 (DESIGN 5.3); below the conditioning threshold only count and mean are compared", "exact reference = sim/src/exact.rs"];
    let firsts: Vec<&(u64, Art, Violation)> = [&b1, &b2, &b3, &b4, &b5].iter().filter_map(|b| b.first_violation()).collect();
    let mut new = 0;
    if let Some((_, a, v)) = firsts.first() {
        if report(ctx, a, v) {
            new = 1;
        }
    }
    write_partial(ctx, "exploration", &[&b1, &b2, &b3, &b4, &b5], new, rule, &assumptions, json!({"merge_tree_schedules": n_sched, "data_sets_per_schedule": n_data}), Some("oriented binary merge trees over 2..5 labelled chunks (2+12+120+1680) x {plain, empty chunk at each leaf, empty operand after each node}: every schedule enumerated (data, chunk sizes, styles and operators are seeded)"));
    if new > 0 {
        1
    } else {
        0
    }
}

fn run_c05(ctx: &Ctx) -> i32 {
    let thorough = ctx.tier == "thorough";
    // (1) exhaustive small scope: tapes <= 8, every position x payload x style x machine
    let max_len = 8;
    let mut all: Vec<Trace> = Vec::new();
    for m in C05_MACHINES {
        let v: Vec<Trace> = dispatch_machine!(m, enum_nonpos, ctx.seed, max_len);
        all.extend(v);
    }
    let n_enum = all.len() as u64;
    let all_ref = &all;
    let b1: Batch<Art> = runner::run_batch("enumerated(non-positive record at every position of tapes <= 8)", n_enum, false, move |j, stats| {
        let tr = all_ref[j as usize].clone();
        let mi = C05_MACHINES.iter().position(|m| *m == tr.machine).unwrap_or(0) as u32;
        trace_job(tr, mi, stats, j % (n_enum / 4).max(1) == 0)
    });
    // (2) seeded fault histories
    let n = if thorough { 2_000_000 } else { 40_000 };
    let b2 = fault_batch("C05", &C05_MACHINES, n, faulty::Mode::NonPositive, ctx.seed, "seeded fault histories (non-positive corruption, early EOF, merges, forks, queries)");
    // (3) fault-free histories: the twin refinement on states reached by merges of clean data
    let b3 = fault_batch("C05", &C05_MACHINES, n / 4, faulty::Mode::Totality, ctx.seed ^ 0x55, "seeded histories, all corruption kinds (twin refinement on healthy slots)");
    let rule = "one evaluation = one history on a real Geometric/Harmonic state and its real Arithmetic twin (fed ln x resp. 1/x in lock step): clean deliveries in 10 styles, a chaos task overwriting a record with +0/-0/negative/-subnormal/-MAX/-inf (every position x payload x style for tapes <= 8, seeded beyond), merges, forks, queries; distinct = distinct event-shape sequences (fault kind, position bucket, style; data erased); non-trivial = at least one fault or one merge of two non-empty deliveries";
    let assumptions = ["the twin receives x.ln() resp. 1/x computed in the element type; tolerance 16u(1+mean|t|) allows any equally valid re-association", "transform clauses have no schedule/fault dimension of their own: they are evaluated as lock-step invariants on every state the runs reach (DESIGN 5.1)"];
    // (4) long streams (count may cross 100 000: Student-t -> normal quantile) with one fault
    let n_long: u64 = if thorough { 24 } else { 3 };
    let seed = ctx.seed;
    let b4: Batch<Art> = runner::run_batch("long streams (6*10^4 .. 2.5*10^5 records) carrying one fault", n_long * 4, false, move |j, stats| {
        let m = C05_MACHINES[(j % 4) as usize];
        let tr: Trace = dispatch_machine!(m, gen_fault_long, "C05", seed, j / 4);
        trace_job(tr, (j % 4) as u32, stats, j == 0)
    });
    let new = report_all(ctx, &[&b1, &b2, &b3, &b4]);
    write_partial(ctx, "fault_enumeration", &[&b1, &b2, &b3, &b4], new, rule, &assumptions, json!({"enumerated_cases": n_enum}), Some("non-positive record x position x delivery style x machine for tapes of length <= 8: exhaustive"));
    if new > 0 {
        1
    } else {
        0
    }
}

/// leaders: per entry point, element type and fault kind one case (among them the NaN that makes
/// the quantile front-ends panic while sorting, as documented, and the capacity overflow);
/// followers: per entry point one fault-free case and one faulty one.
fn session_plan(all: &[Case]) -> (Vec<Case>, Vec<Case>) {
    // per key the longest stream (a fault on a stream too short to be looked at is rejected
    // before anything interesting runs)
    let mut leaders: BTreeMap<(String, u8, String, u64), Case> = BTreeMap::new();
    let mut followers: BTreeMap<(String, bool, bool), Case> = BTreeMap::new();
    let len = |c: &Case| c.a.len() + c.b.len();
    for c in all {
        if len(c) > 12 {
            continue;
        }
        let fl = match c.flt { machines::Flt::F32 => 0u8, machines::Flt::F64 => 1, machines::Flt::Int => 2 };
        let kind = c.fault.split('(').next().unwrap_or("").to_string();
        // the query parameter (quantile / rate) is a dimension of its own: with an invalid one the
        // data is never looked at
        let q = f64::from_bits(c.q);
        let q_ok = q > 0.0 && q < 1.0;
        if c.fault != "none" {
            let e = leaders.entry((c.entry.name().to_string(), fl, kind, c.q)).or_insert_with(|| c.clone());
            if len(c) > len(e) {
                *e = c.clone();
            }
        }
        let e = followers.entry((c.entry.name().to_string(), c.fault == "none", q_ok)).or_insert_with(|| c.clone());
        if len(c) > len(e) {
            *e = c.clone();
        }
    }
    (leaders.into_values().collect(), followers.into_values().collect())
}

fn run_c11(ctx: &Ctx) -> i32 {
    let thorough = ctx.tier == "thorough";
    // (1) exhaustive fault cases against every entry point
    // thorough: the same exhaustive case space over 6 different valid backgrounds
    let mut cases_v = cases::enumerate(ctx.seed, 6);
    if thorough {
        for i in 1..6u64 {
            cases_v.extend(cases::enumerate(ctx.seed.wrapping_add(i * 7919), 6));
        }
    }
    let n_cases = cases_v.len() as u64;
    let cref = &cases_v;
    let b1: Batch<Art> = runner::run_batch("enumerated fault cases (entry point x fault kind x position x confidence, streams <= 6)", n_cases, false, move |j, stats| {
        let c = &cref[j as usize];
        let out = cases::run_case(c);
        let violations = cases::judge(c, &out);
        stats.inc("cases_judged");
        stats.inc(&format!("outcome:{}", out.ci.class().split('(').next().unwrap_or("?")));
        let mut reach = Reach::default();
        reach.shape = cases::case_shape(c);
        reach.steps = 1;
        let fired = vec![(c.fault.split('(').next().unwrap_or("").to_string(), 1u64)];
        let sample = if j % (n_cases / 6).max(1) == 0 { Some(json!({"case": c.to_json(), "outcome": format!("{:?}", out.ci)})) } else { None };
        JobOut { artifact: if violations.is_empty() { None } else { Some(Art::Case(c.clone())) }, violations, reach, nontrivial: c.fault != "none", fired, sample, label: (0, c.entry.name().to_string()) }
    });
    // (2) seeded fault-then-continue histories on long-lived states
    let n = if thorough { 1_000_000 } else { 15_000 };
    let b2 = fault_batch("C11", &C09_MACHINES, n, faulty::Mode::Totality, ctx.seed, "seeded fault histories on long-lived states (corrupt / early EOF / desync / duplicate, then merges, forks, queries)");
    let rule = "one evaluation = one fault case (an entry point fed a stream carrying one fault at one position, with one confidence) or one seeded fault history on a long-lived state; the oracle classifies the actual input and demands: no panic except the documented ones, no Ok with a NaN or inverted bound, the documented error variant (with payload when a single class is present); distinct = distinct (entry, type, lengths, fault, position, confidence, style) tuples resp. event-shape sequences; non-trivial = a fault is present";
    let assumptions = ["documented variants are taken from the rustdoc of each entry point (TooFewSamples, InvalidInputData, NonPositiveValue, InvalidSuccesses, TooFewSuccesses, TooFewFailures, InvalidQuantile, DifferentSampleSizes)", "degenerate but valid data (constant, overflowing, underflowing) may yield any Err or a valid Ok", "confidence levels are drawn from [0.001, 0.9999] through the checked constructors"];
    // (3) one corrupt record at the first / a middle / the last position of a long stream
    let n_long: u64 = if thorough { 20 } else { 2 };
    let nm = C09_MACHINES.len() as u64;
    let seed = ctx.seed;
    let b3: Batch<Art> = runner::run_batch("long streams (6*10^4 .. 2.5*10^5 records) carrying one fault", n_long * nm, false, move |j, stats| {
        let m = C09_MACHINES[(j % nm) as usize];
        let tr: Trace = dispatch_machine!(m, gen_fault_long, "C11", seed, j / nm);
        trace_job(tr, (j % nm) as u32, stats, j == 0)
    });
    // (4) process histories: a fresh process serves one request that ends in a documented panic
    // (caught by its caller) or in an error, and then ordinary requests. What the library keeps
    // between calls must survive an unwinding / failing call: every later request is judged as if
    // it were the first.
    let (leaders, followers) = session_plan(&cases_v);
    let n_leaders = leaders.len() as u64;
    let (lref, fref) = (&leaders, &followers);
    let b4: Batch<Art> = runner::run_batch("process histories (a fresh process serves a request ending in a documented panic or an error, then ordinary requests)", n_leaders, false, move |j, stats| {
        let leader = &lref[j as usize];
        stats.inc("sessions");
        let scan_with = |with_leader: bool, fs: &[Case]| -> Option<(usize, Violation)> {
            let file = std::env::temp_dir().join(format!("sim_session_{}_{}.json", std::process::id(), j));
            std::fs::write(&file, json!({"leader": if with_leader { leader.to_json() } else { Value::Null }, "followers": fs.iter().map(|c| c.to_json()).collect::<Vec<_>>()}).to_string()).expect("write session file");
            let outp = std::process::Command::new(std::env::current_exe().expect("current_exe")).arg("session-scan").arg(&file).output().expect("spawn session child");
            std::fs::remove_file(&file).ok();
            let so = String::from_utf8_lossy(&outp.stdout).to_string();
            let line = so.lines().find(|l| l.starts_with("SESSION-VIOLATION "))?;
            let x: Value = serde_json::from_str(&line["SESSION-VIOLATION ".len()..]).ok()?;
            let inv = format!("after-earlier-requests-in-the-same-process/{}", x["invariant"].as_str().unwrap_or(""));
            Some((x["follower"].as_u64().unwrap_or(0) as usize, Violation::new(x["property"].as_str().unwrap_or("C11"), &inv, x["slot"].as_u64().unwrap_or(0) as u16, x["detail"].as_str().unwrap_or("").to_string())))
        };
        let mut violations = Vec::new();
        let mut artifact = None;
        let scan = |fs: &[Case]| scan_with(true, fs);
        if let Some((i, v)) = scan(fref) {
            // the follower must be innocent on its own - in a fresh process too, this one has served
            // hundreds of thousands of requests - otherwise the case batch reports it
            let pair = std::slice::from_ref(&fref[i]);
            if scan_with(false, pair).is_none() {
                // the pair (leader, follower) if it is enough, the whole served prefix otherwise
                let cs: Vec<Case> = if scan(pair).is_some() { vec![leader.clone(), fref[i].clone()] } else { std::iter::once(leader.clone()).chain(fref[..=i].iter().cloned()).collect() };
                artifact = Some(Art::Session(cs));
                violations.push(v);
            }
        }
        let mut reach = Reach::default();
        reach.shape = cases::case_shape(leader) ^ 0x5E55_10;
        reach.steps = 1 + fref.len() as u64;
        JobOut { artifact, violations, reach, nontrivial: true, fired: vec![(format!("session-leader:{}", leader.fault.split('(').next().unwrap_or("")), 1u64)], sample: if j == 0 { Some(json!({"session_leader": leader.to_json(), "followers": fref.len()})) } else { None }, label: (0, format!("session-{}", leader.entry.name())) }
    });
    // (5) neighbour histories: a fresh process serves, for each faulty request, the valid requests
    // closest to it (same stream with the bad record repaired, padded to a sufficient / equal
    // length, an ordinary quantile, counter pairs sharing two of {k, n, |n-k|}) and then the faulty
    // request itself, which is judged as if it were the first. What the library remembers between
    // calls must identify a request completely; a memo consulted before validation, or keyed by a
    // derived quantity, hands the neighbour's answer to the invalid request.
    // the faulty requests of this batch: the leaders of (4) plus every faulty counter request
    // (n, k [, rate / quantile]) under one confidence - for counters the distance between a bad
    // pair and its valid neighbours is itself a dimension (k = n + 1 has no valid neighbour with
    // two failures, k = 2n + 7 has)
    let mut nb_leaders: Vec<Case> = leaders.clone();
    for c in &cases_v {
        if c.flt == machines::Flt::Int && c.fault != "none" && (c.conf == 18 || c.entry == cases::Entry::PropIsSignificant) && !nb_leaders.iter().any(|l| l.entry == c.entry && l.n == c.n && l.k == c.k && l.q == c.q && l.conf == c.conf) {
            nb_leaders.push(c.clone());
        }
    }
    let lref = &nb_leaders;
    let group = 12usize;
    let n_groups = (nb_leaders.len() + group - 1) / group;
    let b5: Batch<Art> = runner::run_batch("neighbour histories (a fresh process serves the valid requests closest to a faulty one, then the faulty one)", n_groups as u64, false, move |j, stats| {
        let mine = &lref[(j as usize) * group..((j as usize + 1) * group).min(lref.len())];
        let mut seq: Vec<Case> = Vec::new();
        let mut group_start: Vec<usize> = Vec::new();
        for f in mine {
            let start = seq.len();
            for n in cases::neighbours_of(f) {
                seq.push(n);
                group_start.push(start);
            }
            seq.push(f.clone());
            group_start.push(start);
            stats.inc("neighbour_histories");
        }
        stats.add("neighbour_requests", seq.len() as u64);
        let scan = |fs: &[Case]| -> Option<(usize, Violation)> {
            let file = std::env::temp_dir().join(format!("sim_nbr_{}_{}.json", std::process::id(), j));
            std::fs::write(&file, json!({"leader": Value::Null, "followers": fs.iter().map(|c| c.to_json()).collect::<Vec<_>>()}).to_string()).expect("write session file");
            let outp = std::process::Command::new(std::env::current_exe().expect("current_exe")).arg("session-scan").arg(&file).output().expect("spawn session child");
            std::fs::remove_file(&file).ok();
            let so = String::from_utf8_lossy(&outp.stdout).to_string();
            let line = so.lines().find(|l| l.starts_with("SESSION-VIOLATION "))?;
            let x: Value = serde_json::from_str(&line["SESSION-VIOLATION ".len()..]).ok()?;
            let inv = format!("after-earlier-requests-in-the-same-process/{}", x["invariant"].as_str().unwrap_or(""));
            Some((x["follower"].as_u64().unwrap_or(0) as usize, Violation::new(x["property"].as_str().unwrap_or("C11"), &inv, x["slot"].as_u64().unwrap_or(0) as u16, x["detail"].as_str().unwrap_or("").to_string())))
        };
        let mut violations = Vec::new();
        let mut artifact = None;
        let mut from = 0usize;
        while from < seq.len() {
            let Some((i, v)) = scan(&seq[from..]) else { break };
            let at = from + i;
            // guilty on its own: the case batch's business, carry on behind it
            if scan(std::slice::from_ref(&seq[at])).is_some() {
                from = at + 1;
                continue;
            }
            let own = &seq[group_start[at]..=at];
            let cs: Vec<Case> = if own.len() >= 2 && scan(own).map(|(k, _)| k + 1 == own.len()).unwrap_or(false) { own.to_vec() } else { seq[..=at].to_vec() };
            artifact = Some(Art::Session(cs));
            violations.push(v);
            break;
        }
        let mut reach = Reach::default();
        reach.shape = mine.first().map(cases::case_shape).unwrap_or(0) ^ 0x4E42_52;
        reach.steps = seq.len() as u64;
        JobOut { artifact, violations, reach, nontrivial: true, fired: vec![("neighbour-history".to_string(), mine.len() as u64)], sample: if j == 0 { Some(json!({"neighbour_history": seq.iter().take(8).map(|c| c.to_json()).collect::<Vec<_>>()})) } else { None }, label: (0, format!("neighbours-{}", mine.first().map(|c| c.entry.name()).unwrap_or(""))) }
    });
    let new = report_all(ctx, &[&b1, &b2, &b3, &b4, &b5]);
    write_partial(ctx, "fault_enumeration", &[&b1, &b2, &b3, &b4, &b5], new, rule, &assumptions, json!({"enumerated_cases": n_cases, "process_histories": n_leaders, "followers_per_history": followers.len(), "neighbour_history_groups": n_groups}), Some("entry point x fault kind x position x confidence kind for streams of length <= 6: exhaustive"));
    if new > 0 {
        1
    } else {
        0
    }
}

fn main() {
    machines::install_panic_hook();
    let args: Vec<String> = std::env::args().collect();
    if args.len() < 2 {
        eprintln!("usage: sim run <PROP> <tier> --out <file> | sim replay <file> | sim digest <PROP> <n>");
        std::process::exit(2);
    }
    match args[1].as_str() {
        "run" => {
            if args.len() < 4 {
                eprintln!("usage: sim run <PROP> <quick|thorough> --out <file> [--replays <dir>]");
                std::process::exit(2);
            }
            let mut out = PathBuf::from("/verif/target/partial/out.json");
            let mut replays = PathBuf::from("/verif/replays");
            let mut i = 4;
            while i < args.len() {
                match args[i].as_str() {
                    "--out" => {
                        out = PathBuf::from(&args[i + 1]);
                        i += 2;
                    }
                    "--replays" => {
                        replays = PathBuf::from(&args[i + 1]);
                        i += 2;
                    }
                    other => {
                        eprintln!("unknown argument {other}");
                        std::process::exit(2);
                    }
                }
            }
            let ctx = Ctx { property: args[2].clone(), tier: args[3].clone(), seed: verif_seed(), out, replays, t0: std::time::Instant::now() };
            println!("[sim] VERIF_SEED={} property={} tier={} workers={}", ctx.seed, ctx.property, ctx.tier, runner::n_workers());
            let code = match ctx.property.as_str() {
                "C05" => run_c05(&ctx),
                "C08" => run_c08(&ctx),
                "C09" => run_c09(&ctx),
                "C11" => run_c11(&ctx),
                "C20" => run_c20(&ctx),
                other => {
                    eprintln!("property {other} has no Engine A check in this build");
                    2
                }
            };
            // a sighting without a replayable witness is not a result
            let code = if code == 0 && UNREPLAYABLE.load(std::sync::atomic::Ordering::SeqCst) { 2 } else { code };
            std::process::exit(code);
        }
        "replay" => {
            let path = Path::new(&args[2]);
            let txt = match std::fs::read_to_string(path) {
                Ok(t) => t,
                Err(e) => {
                    eprintln!("cannot read {}: {e}", path.display());
                    std::process::exit(2);
                }
            };
            let v: Value = match serde_json::from_str(&txt) {
                Ok(v) => v,
                Err(e) => {
                    eprintln!("bad replay file: {e}");
                    std::process::exit(2);
                }
            };
            let (art, recorded): (Art, Option<(String, String)>) = if v.get("config").and_then(|x| x.as_str()) == Some("fault-case") {
                let c = match Case::from_json(&v["case"]) {
                    Ok(c) => c,
                    Err(e) => {
                        eprintln!("bad replay file: {e}");
                        std::process::exit(2);
                    }
                };
                let rec = v.get("violation").map(|x| (x["property"].as_str().unwrap_or("").to_string(), x["invariant"].as_str().unwrap_or("").to_string()));
                (Art::Case(c), rec)
            } else if v.get("config").and_then(|x| x.as_str()) == Some("fault-session") {
                let mut cs = Vec::new();
                for cj in v["cases"].as_array().cloned().unwrap_or_default() {
                    match Case::from_json(&cj) {
                        Ok(c) => cs.push(c),
                        Err(e) => {
                            eprintln!("bad replay file: {e}");
                            std::process::exit(2);
                        }
                    }
                }
                let rec = v.get("violation").map(|x| (x["property"].as_str().unwrap_or("").to_string(), x["invariant"].as_str().unwrap_or("").to_string()));
                (Art::Session(cs), rec)
            } else {
                match Trace::from_json(&v) {
                    Ok(t) => {
                        let rec = t.violation.as_ref().map(|v| v.key());
                        (Art::Trace(t), rec)
                    }
                    Err(e) => {
                        eprintln!("bad replay file: {e}");
                        std::process::exit(2);
                    }
                }
            };
            let mut st = Stats::default();
            let viols = exec_art(&art, &mut st);
            match recorded {
                Some(key) => {
                    if let Some(v) = viols.iter().find(|x| x.key() == key) {
                        println!("REPRODUCED property={} invariant={} slot={} : {}", v.property, v.invariant, v.slot, v.detail);
                        std::process::exit(1);
                    }
                    if let Some(v) = viols.first() {
                        println!("DIFFERENT violation on replay: property={} invariant={} : {}", v.property, v.invariant, v.detail);
                        std::process::exit(2);
                    }
                    println!("NOT REPRODUCED: recorded {} / {} does not occur on this tree", key.0, key.1);
                    std::process::exit(0);
                }
                None => {
                    if let Some(v) = viols.first() {
                        println!("REPRODUCED property={} invariant={} slot={} : {}", v.property, v.invariant, v.slot, v.detail);
                        std::process::exit(1);
                    }
                    println!("trace passes");
                    std::process::exit(0);
                }
            }
        }
        "session-scan" => {
            // child of the session batch: serve the leader, then the followers one after the other in
            // this (fresh) process; report the first follower that is judged in violation
            let v: Value = serde_json::from_str(&std::fs::read_to_string(&args[2]).expect("read session file")).expect("json");
            if !v["leader"].is_null() {
                let leader = Case::from_json(&v["leader"]).expect("leader");
                let _ = cases::run_case(&leader);
            }
            for (i, cj) in v["followers"].as_array().cloned().unwrap_or_default().iter().enumerate() {
                let f = Case::from_json(cj).expect("follower");
                let viol = cases::judge(&f, &cases::run_case(&f));
                if let Some(x) = viol.first() {
                    println!("SESSION-VIOLATION {}", json!({"follower": i, "property": x.property, "invariant": x.invariant, "slot": x.slot, "detail": x.detail}));
                    break;
                }
            }
            std::process::exit(0);
        }
        "obs" => {
            // prints what every live slot of an isolated trace answers at the end (fresh process)
            let txt = std::fs::read_to_string(&args[2]).unwrap_or_default();
            let v: Value = serde_json::from_str(&txt).unwrap_or(Value::Null);
            match Trace::from_json(&v) {
                Ok(tr) => {
                    let mut st = Stats::default();
                    let (_, reach, _) = exec_trace(&tr, &mut st);
                    for l in &reach.final_obs {
                        println!("{l}");
                    }
                    std::process::exit(0);
                }
                Err(e) => {
                    eprintln!("bad trace: {e}");
                    std::process::exit(2);
                }
            }
        }
        "digest" => {
            let prop: &'static str = match args[2].as_str() {
                "C08" => "C08",
                "C05" => "C05",
                "C11" => "C11",
                _ => "C09",
            };
            let n: u64 = args[3].parse().unwrap_or(64);
            let seed = verif_seed();
            #[cfg(feature = "serde-roundtrip")]
            if args[2] == "C20" {
                let nm = C20_MACHINES.len() as u64;
                let b: Batch<Art> = runner::run_batch("digest", n * nm, false, move |j, stats| {
                    let m = C20_MACHINES[(j % nm) as usize];
                    use ckpt::generate as ckpt_generate;
                    let tr: Trace = dispatch_ckpt!(m, ckpt_generate, seed, j / nm);
                    trace_job(tr, (j % nm) as u32, stats, false)
                });
                let mut shapes: Vec<u64> = b.shapes.iter().copied().collect();
                shapes.sort_unstable();
                let mut d = rng::Digest::new();
                for s in &shapes {
                    d.u64(*s);
                }
                println!("seed={} evaluations={} shapes={} digest={:016x} steps={} counters={:?} fired={:?} violations={:?}", seed, b.evaluations, shapes.len(), d.0, b.steps, b.stats.counters, b.fired, b.violations.keys().collect::<Vec<_>>());
                return;
            }
            let b = match prop {
                "C08" => free_batch(prop, &C08_MACHINES, n, SizeClass::Small, seed, "digest"),
                "C05" => fault_batch(prop, &C05_MACHINES, n, faulty::Mode::NonPositive, seed, "digest"),
                "C11" => fault_batch(prop, &C09_MACHINES, n, faulty::Mode::Totality, seed, "digest"),
                _ => free_batch(prop, &C09_MACHINES, n, SizeClass::Small, seed, "digest"),
            };
            let mut shapes: Vec<u64> = b.shapes.iter().copied().collect();
            shapes.sort_unstable();
            let mut d = rng::Digest::new();
            for s in &shapes {
                d.u64(*s);
            }
            println!(
                "seed={} evaluations={} shapes={} digest={:016x} steps={} counters={:?} worst={:?} fired={:?} violations={:?}",
                seed,
                b.evaluations,
                shapes.len(),
                d.0,
                b.steps,
                b.stats.counters,
                b.stats.worst.iter().map(|(k, v)| (k.clone(), v.to_bits())).collect::<Vec<_>>(),
                b.fired,
                b.violations.keys().collect::<Vec<_>>()
            );
        }
        other => {
            eprintln!("unknown command {other}");
            std::process::exit(2);
        }
    }
}
