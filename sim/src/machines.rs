//! The real stats-ci state machines, wrapped behind one uniform interface so that the
//! interpreter, the schedulers and the oracles are generic. Everything in here calls the
//! public API of the crate under test; nothing is stubbed.

use stats_ci::comparison::{Paired, Unpaired};
use stats_ci::error::CIError;
use stats_ci::mean::{Arithmetic, Geometric, Harmonic, StatisticsOps};
use stats_ci::utils::KahanSum;
use stats_ci::{proportion, quantile, Confidence, Interval};
use std::collections::{LinkedList, VecDeque};
use std::panic::{catch_unwind, AssertUnwindSafe};

pub type Bits = u64;

// ------------------------------------------------------------------------------------------
// float element types
// ------------------------------------------------------------------------------------------

pub trait Fl: num_traits::Float + std::fmt::Debug + Send + Sync + 'static {
    const NAME: &'static str;
    /// unit roundoff
    const U: f64;
    fn from_bits64(b: Bits) -> Self;
    fn bits64(self) -> Bits;
    fn w(self) -> f64;
    fn from_f64_lossy(x: f64) -> Self;
}
impl Fl for f32 {
    const NAME: &'static str = "f32";
    const U: f64 = 5.960_464_477_539_063e-8; // 2^-24
    fn from_bits64(b: Bits) -> Self {
        f32::from_bits(b as u32)
    }
    fn bits64(self) -> Bits {
        self.to_bits() as u64
    }
    fn w(self) -> f64 {
        self as f64
    }
    fn from_f64_lossy(x: f64) -> Self {
        x as f32
    }
}
impl Fl for f64 {
    const NAME: &'static str = "f64";
    const U: f64 = 1.110_223_024_625_156_5e-16; // 2^-53
    fn from_bits64(b: Bits) -> Self {
        f64::from_bits(b)
    }
    fn bits64(self) -> Bits {
        self.to_bits()
    }
    fn w(self) -> f64 {
        self
    }
    fn from_f64_lossy(x: f64) -> Self {
        x
    }
}

#[derive(Clone, Copy, Debug, PartialEq, Eq)]
pub enum Flt {
    F32,
    F64,
    Int,
}

// ------------------------------------------------------------------------------------------
// structured outcomes
// ------------------------------------------------------------------------------------------

/// Structured copy of `CIError`, so that oracles can match on variant and payload.
#[derive(Clone, Debug, PartialEq)]
pub enum ErrV {
    TooFewSamples(usize),
    TooFewSuccesses(usize, usize, f64),
    TooFewFailures(usize, usize, f64),
    InvalidConfidenceLevel(f64),
    InvalidQuantile(f64),
    InvalidSuccesses(usize, usize),
    NonPositiveValue(f64),
    InvalidInputData,
    FloatConversionError,
    IndexError(f64, usize),
    StringError,
    IntervalError(String),
    DifferentSampleSizes(usize, usize),
    Other(String),
}

impl ErrV {
    pub fn variant(&self) -> &'static str {
        match self {
            ErrV::TooFewSamples(_) => "TooFewSamples",
            ErrV::TooFewSuccesses(..) => "TooFewSuccesses",
            ErrV::TooFewFailures(..) => "TooFewFailures",
            ErrV::InvalidConfidenceLevel(_) => "InvalidConfidenceLevel",
            ErrV::InvalidQuantile(_) => "InvalidQuantile",
            ErrV::InvalidSuccesses(..) => "InvalidSuccesses",
            ErrV::NonPositiveValue(_) => "NonPositiveValue",
            ErrV::InvalidInputData => "InvalidInputData",
            ErrV::FloatConversionError => "FloatConversionError",
            ErrV::IndexError(..) => "IndexError",
            ErrV::StringError => "Error",
            ErrV::IntervalError(_) => "IntervalError",
            ErrV::DifferentSampleSizes(..) => "DifferentSampleSizes",
            ErrV::Other(_) => "Other",
        }
    }
    /// bit-exact rendering (NaN payloads and the sign of zero included)
    pub fn render(&self) -> String {
        fn f(x: &f64) -> String {
            format!("{:?}#{:016x}", x, x.to_bits())
        }
        match self {
            ErrV::TooFewSuccesses(a, b, c) => format!("TooFewSuccesses({a},{b},{})", f(c)),
            ErrV::TooFewFailures(a, b, c) => format!("TooFewFailures({a},{b},{})", f(c)),
            ErrV::InvalidConfidenceLevel(c) => format!("InvalidConfidenceLevel({})", f(c)),
            ErrV::InvalidQuantile(c) => format!("InvalidQuantile({})", f(c)),
            ErrV::NonPositiveValue(c) => format!("NonPositiveValue({})", f(c)),
            ErrV::IndexError(c, n) => format!("IndexError({},{n})", f(c)),
            other => format!("{:?}", other),
        }
    }
}

impl From<CIError> for ErrV {
    fn from(e: CIError) -> Self {
        #[allow(unreachable_patterns)]
        match e {
            CIError::TooFewSamples(n) => ErrV::TooFewSamples(n),
            CIError::TooFewSuccesses(a, b, c) => ErrV::TooFewSuccesses(a, b, c),
            CIError::TooFewFailures(a, b, c) => ErrV::TooFewFailures(a, b, c),
            CIError::InvalidConfidenceLevel(c) => ErrV::InvalidConfidenceLevel(c),
            CIError::InvalidQuantile(q) => ErrV::InvalidQuantile(q),
            CIError::InvalidSuccesses(a, b) => ErrV::InvalidSuccesses(a, b),
            CIError::NonPositiveValue(v) => ErrV::NonPositiveValue(v),
            CIError::InvalidInputData => ErrV::InvalidInputData,
            CIError::FloatConversionError(_) => ErrV::FloatConversionError,
            CIError::IndexError(x, n) => ErrV::IndexError(x, n),
            CIError::Error(_) => ErrV::StringError,
            CIError::IntervalError(e) => ErrV::IntervalError(format!("{:?}", e)),
            CIError::DifferentSampleSizes(a, b) => ErrV::DifferentSampleSizes(a, b),
            other => ErrV::Other(format!("{:?}", other)),
        }
    }
}

/// Outcome of one library call that returns `CIResult<T>`.
#[derive(Clone, Debug, PartialEq)]
pub enum Out<T> {
    Ok(T),
    Err(ErrV),
    Panic(String),
}

impl<T> Out<T> {
    pub fn is_ok(&self) -> bool {
        matches!(self, Out::Ok(_))
    }
    pub fn is_panic(&self) -> bool {
        matches!(self, Out::Panic(_))
    }
    pub fn class(&self) -> String {
        match self {
            Out::Ok(_) => "Ok".into(),
            Out::Err(e) => format!("Err({})", e.variant()),
            Out::Panic(m) => format!("Panic({})", m),
        }
    }
}

/// An interval rendered in f64 (widening f32 and usize is exact for every value we see).
#[derive(Clone, Copy, Debug)]
pub struct Iv {
    /// 0 two-sided, 1 upper one-sided [x, inf), 2 lower one-sided (-inf, x]
    pub kind: u8,
    pub lo: f64,
    pub hi: f64,
}
impl PartialEq for Iv {
    fn eq(&self, o: &Self) -> bool {
        self.kind == o.kind && self.lo.to_bits() == o.lo.to_bits() && self.hi.to_bits() == o.hi.to_bits()
    }
}
impl Iv {
    pub fn render(&self) -> String {
        format!(
            "{}[{:?}#{:x}, {:?}#{:x}]",
            ["two", "upper", "lower"][self.kind as usize],
            self.lo,
            self.lo.to_bits(),
            self.hi,
            self.hi.to_bits()
        )
    }
}

pub fn iv_f<F: Fl>(i: &Interval<F>) -> Iv {
    match i {
        Interval::TwoSided(a, b) => Iv { kind: 0, lo: a.w(), hi: b.w() },
        Interval::UpperOneSided(a) => Iv { kind: 1, lo: a.w(), hi: f64::INFINITY },
        Interval::LowerOneSided(b) => Iv { kind: 2, lo: f64::NEG_INFINITY, hi: b.w() },
    }
}
pub fn iv_u(i: &Interval<usize>) -> Iv {
    match i {
        Interval::TwoSided(a, b) => Iv { kind: 0, lo: *a as f64, hi: *b as f64 },
        Interval::UpperOneSided(a) => Iv { kind: 1, lo: *a as f64, hi: f64::INFINITY },
        Interval::LowerOneSided(b) => Iv { kind: 2, lo: f64::NEG_INFINITY, hi: *b as f64 },
    }
}

thread_local! {
    static LAST_PANIC: std::cell::RefCell<String> = const { std::cell::RefCell::new(String::new()) };
    /// > 0 while a library call is being executed under `guard` (its panics are data, not errors)
    static IN_GUARD: std::cell::Cell<u32> = const { std::cell::Cell::new(0) };
}

/// Installs a silent panic hook that records the message (and location) per thread.
pub fn install_panic_hook() {
    std::panic::set_hook(Box::new(|info| {
        let msg = if let Some(s) = info.payload().downcast_ref::<&str>() {
            s.to_string()
        } else if let Some(s) = info.payload().downcast_ref::<String>() {
            s.clone()
        } else {
            "<non-string panic>".to_string()
        };
        let loc = info
            .location()
            .map(|l| {
                let f = l.file();
                let f = f.rsplit('/').next().unwrap_or(f);
                format!(" @{}:{}", f, l.line())
            })
            .unwrap_or_default();
        if IN_GUARD.with(|g| g.get()) == 0 {
            // a panic of the harness itself (or of shuttle): never silent
            eprintln!("[harness panic] {}{}", msg, info.location().map(|l| format!(" at {}:{}", l.file(), l.line())).unwrap_or_default());
        }
        LAST_PANIC.with(|p| *p.borrow_mut() = format!("{}{}", msg, loc));
    }));
}

thread_local! {
    /// set for the runs that share their thread with a neighbour tenant (see `neighbour_tenant`)
    pub static NEIGHBOUR: std::cell::Cell<bool> = const { std::cell::Cell::new(false) };
}

/// "Another tenant works on the same thread": before a delivery of the run, a neighbour that keeps
/// its own statistics in the OTHER element type is handed the same records (and, once more, the
/// first of them, so that its most recent request concerns the value the run is about to deliver),
/// then asks for its intervals. Its states are thrown away. Whatever the library remembers between
/// calls on this thread (a memo of the last logarithm, a scratch buffer) now comes from a foreign
/// request when the run's own request arrives; the run's oracles do not change.
pub fn neighbour_tenant(flt: Flt, recs: [&[Bits]; 2]) {
    fn feed<G: Fl>(xs: &[f64]) {
        let mut a = Arithmetic::<G>::new();
        let mut g = Geometric::<G>::new();
        let mut h = Harmonic::<G>::new();
        for &x in xs.iter().chain(xs.first()) {
            let v = G::from_f64_lossy(x);
            let _ = StatisticsOps::append(&mut a, v);
            let _ = StatisticsOps::append(&mut h, v);
            let _ = StatisticsOps::append(&mut g, v);
        }
        let cf = conf(18);
        let _ = a.ci_mean(cf);
        let _ = h.ci_mean(cf);
        let _ = g.ci_mean(cf);
    }
    if flt == Flt::Int {
        return;
    }
    let xs: Vec<f64> = recs[0].iter().chain(recs[1].iter()).map(|&b| crate::tape::decode(b, flt)).collect();
    if xs.is_empty() {
        return;
    }
    let _ = guard(|| match flt {
        Flt::F32 => feed::<f64>(&xs),
        _ => feed::<f32>(&xs),
    });
}

/// message (and location) of the last panic seen by this thread
pub fn last_panic_message() -> String {
    LAST_PANIC.with(|p| p.borrow().clone())
}

/// Runs a library call, converting a panic into a value.
pub fn guard<T>(f: impl FnOnce() -> T) -> Result<T, String> {
    IN_GUARD.with(|g| g.set(g.get() + 1));
    let r = catch_unwind(AssertUnwindSafe(f));
    IN_GUARD.with(|g| g.set(g.get() - 1));
    match r {
        Ok(v) => Ok(v),
        Err(_) => Err(LAST_PANIC.with(|p| p.borrow().clone())),
    }
}

pub fn call<T, U>(f: impl FnOnce() -> Result<T, CIError>, conv: impl FnOnce(T) -> U) -> Out<U> {
    match guard(f) {
        Ok(Ok(v)) => Out::Ok(conv(v)),
        Ok(Err(e)) => Out::Err(e.into()),
        Err(p) => Out::Panic(p),
    }
}

// ------------------------------------------------------------------------------------------
// confidences
// ------------------------------------------------------------------------------------------

pub const LEVELS: [f64; 10] = [0.001, 0.01, 0.1, 0.5, 0.8, 0.9, 0.95, 0.99, 0.999, 0.9999];

/// confidence number c encodes kind = c % 3 (two-sided, upper, lower) and level = LEVELS[c / 3]
pub fn conf(c: u8) -> Confidence {
    let level = LEVELS[(c / 3) as usize % LEVELS.len()];
    match c % 3 {
        0 => Confidence::new_two_sided(level),
        1 => Confidence::new_upper(level),
        _ => Confidence::new_lower(level),
    }
}
pub const N_CONF: u8 = 30;
pub fn conf_name(c: u8) -> String {
    format!("{}@{}", ["two", "upper", "lower"][(c % 3) as usize], LEVELS[(c / 3) as usize % LEVELS.len()])
}

// ------------------------------------------------------------------------------------------
// observations
// ------------------------------------------------------------------------------------------

#[derive(Clone, Copy, Debug, PartialEq, Eq, PartialOrd, Ord)]
pub enum What {
    /// exact integer counters: index 0.. (sample_count / population / successes / count_a / count_b)
    Count(u8),
    /// sample_mean of stream k (k = 0 for single-stream machines; 0/1 = stats_a / stats_b of Unpaired)
    Mean(u8),
    Var(u8),
    Sd(u8),
    Sem(u8),
    /// ci_mean / ci for confidence number c
    Ci(u8),
    /// proportion::Stats::is_significant
    Signif,
    /// KahanSum::value
    Value,
    /// quantile::Stats::ci(conf c, quantile index qi)
    QCi(u8, u8),
    /// quantile::Stats::index(quantile index qi)
    QIndex(u8),
}

#[derive(Clone, Debug, PartialEq)]
pub enum Val {
    U(u64),
    /// bit pattern of the f64-widened value
    F(u64),
    B(bool),
    Ci(Out<Iv>),
    Idx(Out<u64>),
    /// the query itself panicked (only possible for the infallible accessors)
    Panic(String),
}
impl Val {
    pub fn f(x: f64) -> Val {
        Val::F(x.to_bits())
    }
    pub fn as_f(&self) -> Option<f64> {
        match self {
            Val::F(b) => Some(f64::from_bits(*b)),
            _ => None,
        }
    }
    pub fn render(&self) -> String {
        match self {
            Val::U(u) => format!("{u}"),
            Val::F(b) => format!("{:?}#{:x}", f64::from_bits(*b), b),
            Val::B(b) => format!("{b}"),
            Val::Ci(Out::Ok(iv)) => format!("Ok({})", iv.render()),
            Val::Ci(Out::Err(e)) => format!("Err({})", e.render()),
            Val::Ci(Out::Panic(p)) => format!("PANIC({p})"),
            Val::Idx(o) => format!("{:?}", o),
            Val::Panic(p) => format!("PANIC({p})"),
        }
    }
}

pub type Obs = Vec<(What, Val)>;

pub fn obs_get<'a>(o: &'a Obs, w: What) -> Option<&'a Val> {
    o.iter().find(|(k, _)| *k == w).map(|(_, v)| v)
}

pub const QUANTILES: [f64; 5] = [0.05, 0.25, 0.5, 0.9, 0.99];

/// what an observer may touch: scalar statistics need n >= 1 / n >= 2 on the pinned tree
/// (otherwise they panic, which is C11's business, not C09's); `level` selects how much to query.
#[derive(Clone, Copy, Debug)]
pub struct ObsPlan<'a> {
    pub confs: &'a [u8],
    /// query everything regardless of the count (fault configuration: panics are recorded)
    pub unguarded: bool,
}

// ------------------------------------------------------------------------------------------
// transforms (the space in which a mean-type machine accumulates)
// ------------------------------------------------------------------------------------------

#[derive(Clone, Copy, Debug, PartialEq, Eq)]
pub enum Transform {
    Id,
    Ln,
    Recip,
    /// a - b of two lock-step streams
    Diff,
}

#[derive(Clone, Copy, Debug, PartialEq, Eq)]
pub enum Family {
    /// KahanSum: C08 only
    Sum,
    /// single T-space stream with mean / sem / ci_mean (Arithmetic, Geometric, Harmonic, Paired)
    Mean,
    /// two independent Arithmetic streams + Welch interval
    Unpaired,
    /// integer state (proportion::Stats, quantile::Stats)
    Count,
}

// ------------------------------------------------------------------------------------------
// the Machine trait
// ------------------------------------------------------------------------------------------

pub trait Machine: 'static {
    type S: Clone + Send;
    const FLT: Flt;
    const FAMILY: Family;
    const TRANSFORM: Transform;
    /// number of input tapes (2 for Paired and Unpaired)
    const STREAMS: usize;
    /// Paired: a delivery consumes the same number of records from both tapes
    const LOCKSTEP: bool;
    const N_STYLES: u8;
    const N_EMPTY: u8;
    const N_MERGE: u8;
    /// Arithmetic exposes sample_variance / sample_std_dev
    const HAS_VAR: bool;

    fn name() -> String;
    fn unit_roundoff() -> f64;
    fn empty(v: u8) -> Self::S;
    /// Feed `recs` (one slice per stream; for non-lockstep two-stream machines only
    /// `recs[stream]` is used unless the style says otherwise) with delivery style `style`.
    fn deliver(s: &mut Self::S, style: u8, stream: usize, recs: [&[Bits]; 2]) -> Out<()>;
    fn style_name(style: u8) -> &'static str;
    fn merge(a: Self::S, b: Self::S, op: u8) -> Self::S;
    fn fork(a: &Self::S, how: u8) -> Self::S;
    fn fingerprint(s: &Self::S) -> String;
    fn observe(s: &Self::S, plan: ObsPlan) -> Obs;
    /// The one-shot reference: a fresh state built by the documented batch entry point, plus the
    /// one-shot `ci(conf, data)` results for each requested confidence.
    fn batch(recs: [&[Bits]; 2], plan: ObsPlan) -> Result<(Self::S, Vec<(u8, Out<Iv>)>), String>;
    /// value of record(s) in the accumulation space, in the element type (widened to f64), and
    /// its float-rounded square in the element type
    fn tspace(a: Bits, b: Bits) -> (f64, f64);
    /// C05: the arithmetic machine over the transformed records that this machine must refine
    /// (Self for machines without a transform)
    type Twin: Machine;
    /// the record the twin receives for record `a` (ln x resp. 1/x computed in the element type)
    fn twin_record(a: Bits) -> Bits {
        a
    }
}

fn vecf<F: Fl>(r: &[Bits]) -> Vec<F> {
    r.iter().map(|&b| F::from_bits64(b)).collect()
}

pub const MERGE_NAMES: [&str; 6] = ["a+b", "b+a", "a+=b", "a.add(b)", "b.add(a)", "b+=a"];

// ------------------------------------------------------------------------------------------
// KahanSum<F>
// ------------------------------------------------------------------------------------------

pub struct MKahan<F>(std::marker::PhantomData<F>);

impl<F: Fl> Machine for MKahan<F> {
    type S = KahanSum<F>;
    const FLT: Flt = if F::U > 1e-10 { Flt::F32 } else { Flt::F64 };
    const FAMILY: Family = Family::Sum;
    const TRANSFORM: Transform = Transform::Id;
    const STREAMS: usize = 1;
    const LOCKSTEP: bool = false;
    const N_STYLES: u8 = 8;
    const N_EMPTY: u8 = 3;
    const N_MERGE: u8 = 4;
    const HAS_VAR: bool = false;

    fn name() -> String {
        format!("KahanSum<{}>", F::NAME)
    }
    fn unit_roundoff() -> f64 {
        F::U
    }
    fn empty(v: u8) -> Self::S {
        match v % 3 {
            0 => KahanSum::default(),
            1 => KahanSum::new(F::zero()),
            _ => KahanSum::from(F::zero()),
        }
    }
    fn deliver(s: &mut Self::S, style: u8, _stream: usize, recs: [&[Bits]; 2]) -> Out<()> {
        let xs: Vec<F> = vecf(recs[0]);
        let r = guard(|| match style % Self::N_STYLES {
            0 => {
                for &x in &xs {
                    *s += x;
                }
            }
            1 => {
                for &x in &xs {
                    *s = *s + x;
                }
            }
            2 => {
                // partial register built with new(first) then += rest, merged by +=
                if let Some((&x0, rest)) = xs.split_first() {
                    let mut p = KahanSum::new(x0);
                    for &x in rest {
                        p += x;
                    }
                    *s += p;
                }
            }
            3 => {
                // partial register merged with the accumulated state on the RIGHT
                if let Some((&x0, rest)) = xs.split_first() {
                    let mut p = KahanSum::from(x0);
                    for &x in rest {
                        p += x;
                    }
                    *s = p + *s;
                }
            }
            4 => {
                let mut p = KahanSum::default();
                for &x in &xs {
                    p += x;
                }
                *s = *s + p;
            }
            5 => {
                // one register per record (the README's par_iter shape)
                for &x in &xs {
                    *s += KahanSum::new(x);
                }
            }
            6 => {
                // the running register is an explicit clone at every step (what code generic over
                // T: Clone does, and what `iter().cloned()` does)
                #[allow(clippy::clone_on_copy)]
                for &x in &xs {
                    *s = Clone::clone(&*s) + x;
                }
            }
            _ => {
                // per-record registers collected first, then folded through `.iter().cloned()`
                let regs: Vec<KahanSum<F>> = xs.iter().map(|&x| KahanSum::new(x)).collect();
                #[allow(clippy::clone_on_copy)]
                for p in regs.iter().cloned() {
                    *s = Clone::clone(&*s) + p;
                }
            }
        });
        match r {
            Ok(()) => Out::Ok(()),
            Err(p) => Out::Panic(p),
        }
    }
    fn style_name(style: u8) -> &'static str {
        ["+=x", "s+x", "new(x0)+=rest; s+=p", "from(x0)+=rest; s=p+s", "default+=all; s=s+p", "s+=new(x) each", "s=s.clone()+x each", "regs.iter().cloned(): s=s.clone()+p"]
            [(style % 8) as usize]
    }
    fn merge(a: Self::S, b: Self::S, op: u8) -> Self::S {
        match op % Self::N_MERGE {
            0 => a + b,
            1 => b + a,
            2 => {
                let mut a = a;
                a += b;
                a
            }
            _ => {
                let mut b = b;
                b += a;
                b
            }
        }
    }
    fn fork(a: &Self::S, how: u8) -> Self::S {
        if how % 2 == 0 {
            *a
        } else {
            #[allow(clippy::clone_on_copy)]
            a.clone()
        }
    }
    fn fingerprint(s: &Self::S) -> String {
        format!("{:?}", s)
    }
    fn observe(s: &Self::S, _plan: ObsPlan) -> Obs {
        vec![(What::Value, Val::f(s.value().w()))]
    }
    fn batch(recs: [&[Bits]; 2], _plan: ObsPlan) -> Result<(Self::S, Vec<(u8, Out<Iv>)>), String> {
        let mut s = KahanSum::default();
        for &b in recs[0] {
            s += F::from_bits64(b);
        }
        Ok((s, vec![]))
    }
    fn tspace(a: Bits, _b: Bits) -> (f64, f64) {
        let x = F::from_bits64(a);
        (x.w(), (x * x).w())
    }
    type Twin = Self;
}

// ------------------------------------------------------------------------------------------
// Arithmetic / Geometric / Harmonic via StatisticsOps
// ------------------------------------------------------------------------------------------

/// feeding styles shared by the three StatisticsOps machines
fn ops_deliver<F: Fl, T>(s: &mut T, style: u8, xs: &[F]) -> Result<(), CIError>
where
    T: StatisticsOps<F> + Copy + core::ops::Add<Output = T> + core::ops::AddAssign,
{
    match style % 10 {
        0 => {
            for &x in xs {
                s.append(x)?;
            }
            Ok(())
        }
        1 => s.extend(&xs.to_vec()),
        2 => s.extend(&xs.iter().copied().collect::<VecDeque<F>>()),
        3 => s.extend(&xs.iter().copied().collect::<LinkedList<F>>()),
        4 => {
            let p = T::from_iter(&xs.to_vec())?;
            *s = *s + p;
            Ok(())
        }
        5 => {
            let p = T::from_iter(&xs.to_vec())?;
            *s += p;
            Ok(())
        }
        6 => {
            // accumulated state as the RIGHT operand
            let p = T::from_iter(&xs.to_vec())?;
            *s = p + *s;
            Ok(())
        }
        7 => {
            // the README's parallel shape: one single-element state per record, folded in
            // (every other step takes the running state through an explicit Clone::clone, as code
            // generic over T: Clone does; for a Copy type both must be the same thing)
            for (i, &x) in xs.iter().enumerate() {
                let p = T::from_iter(&[x])?;
                #[allow(clippy::clone_on_copy)]
                let cur = if i % 2 == 0 { *s } else { Clone::clone(&*s) };
                *s = cur + p;
            }
            Ok(())
        }
        8 => {
            // records one at a time through extend(&Option) / extend(&[x; 1])
            for (i, &x) in xs.iter().enumerate() {
                if i % 2 == 0 {
                    s.extend(&Some(x))?;
                } else {
                    s.extend(&[x])?;
                }
            }
            Ok(())
        }
        _ => {
            // default-constructed partial filled by extend, then merged with +=
            let mut p = T::default();
            p.extend(&xs.to_vec())?;
            *s += p;
            Ok(())
        }
    }
}
const OPS_STYLE_NAMES: [&str; 10] = [
    "append loop",
    "extend(&Vec)",
    "extend(&VecDeque)",
    "extend(&LinkedList)",
    "from_iter; s=s+p",
    "from_iter; s+=p",
    "from_iter; s=p+s",
    "from_iter(&[x]) each; s=s+p",
    "extend(&Some(x)/&[x]) each",
    "default+extend; s+=p",
];

macro_rules! mean_machine {
    ($M:ident, $T:ident, $name:literal, $transform:expr, $has_var:expr, $tfn:expr) => {
        pub struct $M<F>(std::marker::PhantomData<F>);
        impl<F: Fl> Machine for $M<F> {
            type S = $T<F>;
            const FLT: Flt = if F::U > 1e-10 { Flt::F32 } else { Flt::F64 };
            const FAMILY: Family = Family::Mean;
            const TRANSFORM: Transform = $transform;
            const STREAMS: usize = 1;
            const LOCKSTEP: bool = false;
            const N_STYLES: u8 = 10;
            const N_EMPTY: u8 = 2;
            const N_MERGE: u8 = 6;
            const HAS_VAR: bool = $has_var;

            fn name() -> String {
                format!("{}<{}>", $name, F::NAME)
            }
            fn unit_roundoff() -> f64 {
                F::U
            }
            fn empty(v: u8) -> Self::S {
                if v % 2 == 0 {
                    <$T<F>>::new()
                } else {
                    <$T<F> as Default>::default()
                }
            }
            fn deliver(s: &mut Self::S, style: u8, _stream: usize, recs: [&[Bits]; 2]) -> Out<()> {
                let xs: Vec<F> = vecf(recs[0]);
                call(|| ops_deliver(s, style, &xs), |_| ())
            }
            fn style_name(style: u8) -> &'static str {
                OPS_STYLE_NAMES[(style % 10) as usize]
            }
            fn merge(a: Self::S, b: Self::S, op: u8) -> Self::S {
                match op % Self::N_MERGE {
                    0 => a + b,
                    1 => b + a,
                    2 => {
                        let mut a = a;
                        a += b;
                        a
                    }
                    3 => <$T<F>>::add(a, b),
                    4 => <$T<F>>::add(b, a),
                    _ => {
                        let mut b = b;
                        b += a;
                        b
                    }
                }
            }
            fn fork(a: &Self::S, how: u8) -> Self::S {
                if how % 2 == 0 {
                    *a
                } else {
                    #[allow(clippy::clone_on_copy)]
                    a.clone()
                }
            }
            fn fingerprint(s: &Self::S) -> String {
                format!("{:?}", s)
            }
            fn observe(s: &Self::S, plan: ObsPlan) -> Obs {
                let mut o: Obs = Vec::with_capacity(6 + plan.confs.len());
                let n = s.sample_count();
                // two documented ways to the same accessors: the inherent methods and the
                // StatisticsOps trait (generic callers); states with an even count are asked
                // through the trait, the others directly - every oracle applies to both
                let via_trait = n % 2 == 0;
                let n = if via_trait { <$T<F> as StatisticsOps<F>>::sample_count(s) } else { n };
                o.push((What::Count(0), Val::U(n as u64)));
                // scalar accessors are only asked where they are defined (they are not
                // interval-computing entry points: their behaviour on tiny states is outside
                // C11); the interval is asked regardless when the plan is unguarded
                if n >= 1 {
                    o.push((What::Mean(0), scalar(|| if via_trait { <$T<F> as StatisticsOps<F>>::sample_mean(s).w() } else { s.sample_mean().w() })));
                }
                if n >= 2 {
                    observe_var::<F, Self>(s, &mut o);
                    o.push((What::Sem(0), scalar(|| if via_trait { <$T<F> as StatisticsOps<F>>::sample_sem(s).w() } else { s.sample_sem().w() })));
                }
                if n >= 2 || plan.unguarded {
                    for &c in plan.confs {
                        o.push((What::Ci(c), Val::Ci(call(|| if via_trait { <$T<F> as StatisticsOps<F>>::ci_mean(s, conf(c)) } else { s.ci_mean(conf(c)) }, |i| iv_f(&i)))));
                    }
                }
                o
            }
            fn batch(recs: [&[Bits]; 2], plan: ObsPlan) -> Result<(Self::S, Vec<(u8, Out<Iv>)>), String> {
                let xs: Vec<F> = vecf(recs[0]);
                let st = <$T<F> as StatisticsOps<F>>::from_iter(&xs).map_err(|e| format!("from_iter over {} valid records answered Err({:?})", xs.len(), e))?;
                let cis = plan
                    .confs
                    .iter()
                    .map(|&c| (c, call(|| <$T<F>>::ci(conf(c), &xs), |i| iv_f(&i))))
                    .collect();
                Ok((st, cis))
            }
            fn tspace(a: Bits, _b: Bits) -> (f64, f64) {
                let x = F::from_bits64(a);
                let t: F = $tfn(x);
                (t.w(), (t * t).w())
            }
            type Twin = MArith<F>;
            fn twin_record(a: Bits) -> Bits {
                let x = F::from_bits64(a);
                let t: F = $tfn(x);
                t.bits64()
            }
        }
    };
}

fn scalar(f: impl FnOnce() -> f64) -> Val {
    match guard(f) {
        Ok(v) => Val::f(v),
        Err(p) => Val::Panic(p),
    }
}

/// variance / std-dev exist on Arithmetic only; this indirection keeps the macro uniform
pub trait VarAccess<F: Fl> {
    fn var_sd(&self) -> Option<(F, F)>;
}
impl<F: Fl> VarAccess<F> for Arithmetic<F> {
    fn var_sd(&self) -> Option<(F, F)> {
        Some((self.sample_variance(), self.sample_std_dev()))
    }
}
impl<F: Fl> VarAccess<F> for Geometric<F> {
    fn var_sd(&self) -> Option<(F, F)> {
        None
    }
}
impl<F: Fl> VarAccess<F> for Harmonic<F> {
    fn var_sd(&self) -> Option<(F, F)> {
        None
    }
}
fn observe_var<F: Fl, M: Machine>(s: &M::S, o: &mut Obs)
where
    M::S: VarAccess<F>,
{
    match guard(|| s.var_sd()) {
        Ok(Some((v, sd))) => {
            o.push((What::Var(0), Val::f(v.w())));
            o.push((What::Sd(0), Val::f(sd.w())));
        }
        Ok(None) => {}
        Err(p) => o.push((What::Var(0), Val::Panic(p))),
    }
}

mean_machine!(MArith, Arithmetic, "Arithmetic", Transform::Id, true, |x: F| x);
mean_machine!(MGeo, Geometric, "Geometric", Transform::Ln, false, |x: F| x.ln());
mean_machine!(MHarm, Harmonic, "Harmonic", Transform::Recip, false, |x: F| F::one() / x);

// ------------------------------------------------------------------------------------------
// Paired<F>
// ------------------------------------------------------------------------------------------

pub struct MPaired<F>(std::marker::PhantomData<F>);

fn paired_deliver<F: Fl>(s: &mut Paired<F>, style: u8, a: &[F], b: &[F]) -> Result<(), CIError> {
    match style % 8 {
        0 => {
            // lock-step append_pair over the common prefix; a length mismatch is only visible to
            // the styles that hand both streams to the library
            for (&x, &y) in a.iter().zip(b.iter()) {
                s.append_pair(x, y)?;
            }
            Ok(())
        }
        1 => s.extend(&a.to_vec(), &b.to_vec()),
        2 => s.extend(
            &a.iter().copied().collect::<VecDeque<F>>(),
            &b.iter().copied().collect::<LinkedList<F>>(),
        ),
        3 => {
            let t: Vec<(F, F)> = a.iter().copied().zip(b.iter().copied()).collect();
            s.extend_tuple(&t)
        }
        4 => {
            let mut p = Paired::default();
            p.extend(&a.to_vec(), &b.to_vec())?;
            *s = s.clone() + p;
            Ok(())
        }
        5 => {
            let mut p = Paired::default();
            p.extend(&a.to_vec(), &b.to_vec())?;
            *s += p;
            Ok(())
        }
        6 => {
            let mut p = Paired::default();
            p.extend(&a.to_vec(), &b.to_vec())?;
            *s = p + s.clone();
            Ok(())
        }
        _ => {
            for (&x, &y) in a.iter().zip(b.iter()) {
                let mut p = Paired::default();
                p.append_pair(x, y)?;
                *s = s.clone() + p;
            }
            Ok(())
        }
    }
}

impl<F: Fl> Machine for MPaired<F> {
    type S = Paired<F>;
    const FLT: Flt = if F::U > 1e-10 { Flt::F32 } else { Flt::F64 };
    const FAMILY: Family = Family::Mean;
    const TRANSFORM: Transform = Transform::Diff;
    const STREAMS: usize = 2;
    const LOCKSTEP: bool = true;
    const N_STYLES: u8 = 8;
    const N_EMPTY: u8 = 1;
    const N_MERGE: u8 = 4;
    const HAS_VAR: bool = false;

    fn name() -> String {
        format!("Paired<{}>", F::NAME)
    }
    fn unit_roundoff() -> f64 {
        F::U
    }
    fn empty(_v: u8) -> Self::S {
        Paired::default()
    }
    fn deliver(s: &mut Self::S, style: u8, _stream: usize, recs: [&[Bits]; 2]) -> Out<()> {
        let a: Vec<F> = vecf(recs[0]);
        let b: Vec<F> = vecf(recs[1]);
        call(|| paired_deliver(s, style, &a, &b), |_| ())
    }
    fn style_name(style: u8) -> &'static str {
        [
            "append_pair loop",
            "extend(&Vec,&Vec)",
            "extend(&VecDeque,&LinkedList)",
            "extend_tuple",
            "default+extend; s=s+p",
            "default+extend; s+=p",
            "default+extend; s=p+s",
            "append_pair into fresh p each; s=s+p",
        ][(style % 8) as usize]
    }
    fn merge(a: Self::S, b: Self::S, op: u8) -> Self::S {
        match op % Self::N_MERGE {
            0 => a + b,
            1 => b + a,
            2 => {
                let mut a = a;
                a += b;
                a
            }
            _ => {
                let mut b = b;
                b += a;
                b
            }
        }
    }
    fn fork(a: &Self::S, _how: u8) -> Self::S {
        a.clone()
    }
    fn fingerprint(s: &Self::S) -> String {
        format!("{:?}", s)
    }
    fn observe(s: &Self::S, plan: ObsPlan) -> Obs {
        let mut o: Obs = Vec::new();
        let n = s.sample_count();
        o.push((What::Count(0), Val::U(n as u64)));
        if n >= 1 {
            o.push((What::Mean(0), scalar(|| s.sample_mean().w())));
        }
        if n >= 2 {
            o.push((What::Sem(0), scalar(|| s.sample_sem().w())));
        }
        if n >= 2 || plan.unguarded {
            for &c in plan.confs {
                o.push((What::Ci(c), Val::Ci(call(|| s.ci_mean(conf(c)), |i| iv_f(&i)))));
            }
        }
        o
    }
    fn batch(recs: [&[Bits]; 2], plan: ObsPlan) -> Result<(Self::S, Vec<(u8, Out<Iv>)>), String> {
        let a: Vec<F> = vecf(recs[0]);
        let b: Vec<F> = vecf(recs[1]);
        let mut st = Paired::default();
        st.extend(&a, &b).map_err(|e| format!("Paired::extend over {} valid pairs answered Err({:?})", a.len(), e))?;
        let cis = plan
            .confs
            .iter()
            .map(|&c| (c, call(|| Paired::ci(conf(c), &a, &b), |i| iv_f(&i))))
            .collect();
        Ok((st, cis))
    }
    fn tspace(a: Bits, b: Bits) -> (f64, f64) {
        let t = F::from_bits64(a) - F::from_bits64(b);
        (t.w(), (t * t).w())
    }
    type Twin = Self;
}

// ------------------------------------------------------------------------------------------
// Unpaired<F>
// ------------------------------------------------------------------------------------------

pub struct MUnpaired<F>(std::marker::PhantomData<F>);

/// styles 0..=5 feed ONE stream (`stream`), styles 6..=9 feed both chunks at once
fn unpaired_deliver<F: Fl>(
    s: &mut Unpaired<F>,
    style: u8,
    stream: usize,
    a: &[F],
    b: &[F],
) -> Result<(), CIError> {
    let one = if stream == 0 { a } else { b };
    match style % 10 {
        0 => {
            for &x in one {
                if stream == 0 {
                    s.append_a(x)?
                } else {
                    s.append_b(x)?
                }
            }
            Ok(())
        }
        1 => {
            if stream == 0 {
                s.extend_a(&one.to_vec())
            } else {
                s.extend_b(&one.to_vec())
            }
        }
        2 => {
            // through the mutable accessor of the wrapped Arithmetic state
            if stream == 0 {
                s.stats_a_mut().extend(&one.to_vec())
            } else {
                s.stats_b_mut().extend(&one.to_vec())
            }
        }
        3 => {
            // partial Unpaired built with new(stats_a, stats_b), one side empty, merged by +
            let part = Arithmetic::from_iter(&one.to_vec())?;
            let p = if stream == 0 {
                Unpaired::new(part, Arithmetic::new())
            } else {
                Unpaired::new(Arithmetic::new(), part)
            };
            *s = s.clone() + p;
            Ok(())
        }
        4 => {
            let part = Arithmetic::from_iter(&one.to_vec())?;
            let p = if stream == 0 {
                Unpaired::new(part, Arithmetic::default())
            } else {
                Unpaired::new(Arithmetic::default(), part)
            };
            *s = p + s.clone();
            Ok(())
        }
        5 => {
            let part = Arithmetic::from_iter(&one.to_vec())?;
            if stream == 0 {
                *s.stats_a_mut() += part;
            } else {
                *s.stats_b_mut() += part;
            }
            Ok(())
        }
        6 => s.extend(&a.to_vec(), &b.to_vec()),
        7 => {
            let p = Unpaired::from_iter(&a.to_vec(), &b.to_vec())?;
            *s += p;
            Ok(())
        }
        8 => {
            let p = Unpaired::from_iter(&a.to_vec(), &b.to_vec())?;
            *s = p + s.clone();
            Ok(())
        }
        _ => {
            // append_pair over the common prefix, the rest through append_a / append_b
            let k = a.len().min(b.len());
            for i in 0..k {
                s.append_pair(a[i], b[i])?;
            }
            for &x in &a[k..] {
                s.append_a(x)?;
            }
            for &y in &b[k..] {
                s.append_b(y)?;
            }
            Ok(())
        }
    }
}

pub fn unpaired_style_is_dual(style: u8) -> bool {
    style % 10 >= 6
}

impl<F: Fl> Machine for MUnpaired<F> {
    type S = Unpaired<F>;
    const FLT: Flt = if F::U > 1e-10 { Flt::F32 } else { Flt::F64 };
    const FAMILY: Family = Family::Unpaired;
    const TRANSFORM: Transform = Transform::Id;
    const STREAMS: usize = 2;
    const LOCKSTEP: bool = false;
    const N_STYLES: u8 = 10;
    const N_EMPTY: u8 = 2;
    const N_MERGE: u8 = 4;
    const HAS_VAR: bool = true;

    fn name() -> String {
        format!("Unpaired<{}>", F::NAME)
    }
    fn unit_roundoff() -> f64 {
        F::U
    }
    fn empty(v: u8) -> Self::S {
        if v % 2 == 0 {
            Unpaired::default()
        } else {
            Unpaired::new(Arithmetic::new(), Arithmetic::new())
        }
    }
    fn deliver(s: &mut Self::S, style: u8, stream: usize, recs: [&[Bits]; 2]) -> Out<()> {
        let a: Vec<F> = vecf(recs[0]);
        let b: Vec<F> = vecf(recs[1]);
        call(|| unpaired_deliver(s, style, stream, &a, &b), |_| ())
    }
    fn style_name(style: u8) -> &'static str {
        [
            "append_a|append_b loop",
            "extend_a|extend_b",
            "stats_x_mut().extend",
            "new(part,empty); s=s+p",
            "new(part,empty); s=p+s",
            "*stats_x_mut()+=part",
            "extend(a,b)",
            "from_iter(a,b); s+=p",
            "from_iter(a,b); s=p+s",
            "append_pair prefix + append_a/b rest",
        ][(style % 10) as usize]
    }
    fn merge(a: Self::S, b: Self::S, op: u8) -> Self::S {
        match op % Self::N_MERGE {
            0 => a + b,
            1 => b + a,
            2 => {
                let mut a = a;
                a += b;
                a
            }
            _ => {
                let mut b = b;
                b += a;
                b
            }
        }
    }
    fn fork(a: &Self::S, _how: u8) -> Self::S {
        a.clone()
    }
    fn fingerprint(s: &Self::S) -> String {
        format!("{:?}", s)
    }
    fn observe(s: &Self::S, plan: ObsPlan) -> Obs {
        let mut o: Obs = Vec::new();
        let mut ns = [0usize; 2];
        for k in 0..2u8 {
            let st = if k == 0 { s.stats_a() } else { s.stats_b() };
            let n = st.sample_count();
            ns[k as usize] = n;
            o.push((What::Count(k), Val::U(n as u64)));
            if n >= 1 {
                o.push((What::Mean(k), scalar(|| st.sample_mean().w())));
            }
            if n >= 2 {
                o.push((What::Var(k), scalar(|| st.sample_variance().w())));
                o.push((What::Sd(k), scalar(|| st.sample_std_dev().w())));
                o.push((What::Sem(k), scalar(|| st.sample_sem().w())));
            }
        }
        if (ns[0] >= 2 && ns[1] >= 2) || plan.unguarded {
            for &c in plan.confs {
                o.push((What::Ci(c), Val::Ci(call(|| s.ci_mean(conf(c)), |i| iv_f(&i)))));
            }
        }
        o
    }
    fn batch(recs: [&[Bits]; 2], plan: ObsPlan) -> Result<(Self::S, Vec<(u8, Out<Iv>)>), String> {
        let a: Vec<F> = vecf(recs[0]);
        let b: Vec<F> = vecf(recs[1]);
        let st = Unpaired::from_iter(&a, &b).map_err(|e| format!("Unpaired::from_iter over {} + {} valid records answered Err({:?})", a.len(), b.len(), e))?;
        let cis = plan
            .confs
            .iter()
            .map(|&c| (c, call(|| Unpaired::ci(conf(c), &a, &b), |i| iv_f(&i))))
            .collect();
        Ok((st, cis))
    }
    fn tspace(a: Bits, _b: Bits) -> (f64, f64) {
        let x = F::from_bits64(a);
        (x.w(), (x * x).w())
    }
    type Twin = Self;
}

// ------------------------------------------------------------------------------------------
// proportion::Stats  (records: 0 = failure, 1 = success)
// ------------------------------------------------------------------------------------------

pub struct MProp;

impl Machine for MProp {
    type S = proportion::Stats;
    const FLT: Flt = Flt::Int;
    const FAMILY: Family = Family::Count;
    const TRANSFORM: Transform = Transform::Id;
    const STREAMS: usize = 1;
    const LOCKSTEP: bool = false;
    const N_STYLES: u8 = 9;
    const N_EMPTY: u8 = 2;
    const N_MERGE: u8 = 4;
    const HAS_VAR: bool = false;

    fn name() -> String {
        "proportion::Stats".into()
    }
    fn unit_roundoff() -> f64 {
        0.0
    }
    fn empty(v: u8) -> Self::S {
        if v % 2 == 0 {
            proportion::Stats::default()
        } else {
            proportion::Stats::new(0, 0)
        }
    }
    fn deliver(s: &mut Self::S, style: u8, _stream: usize, recs: [&[Bits]; 2]) -> Out<()> {
        let bs: Vec<bool> = recs[0].iter().map(|&b| b != 0).collect();
        let r = guard(|| match style % Self::N_STYLES {
            0 => {
                for &b in &bs {
                    if b {
                        s.add_success()
                    } else {
                        s.add_failure()
                    }
                }
            }
            1 => s.extend(&bs),
            2 => {
                // extend_if over non-boolean carrier data
                let ints: Vec<i32> = bs.iter().enumerate().map(|(i, &b)| if b { i as i32 + 1 } else { -(i as i32) - 1 }).collect();
                s.extend_if(&ints, |&x| x > 0)
            }
            3 => {
                // FromIterator over an exact-size iterator
                let p: proportion::Stats = bs.iter().copied().collect();
                *s = *s + p;
            }
            4 => {
                // FromIterator over iterators whose size hint is not exact (filter, flat_map,
                // chain of halves, take_while) - alternating by chunk length
                let p: proportion::Stats = match bs.len() % 4 {
                    0 => bs.iter().copied().filter(|_| true).collect(),
                    1 => bs.iter().flat_map(|&b| Some(b)).collect(),
                    2 => {
                        let h = bs.len() / 2;
                        bs[..h].iter().copied().chain(bs[h..].iter().copied().filter(|_| true)).collect()
                    }
                    _ => {
                        let mut i = 0;
                        let n = bs.len();
                        std::iter::from_fn(|| {
                            if i < n {
                                i += 1;
                                Some(bs[i - 1])
                            } else {
                                None
                            }
                        })
                        .collect()
                    }
                };
                *s += p;
            }
            5 => {
                let k = bs.iter().filter(|&&b| b).count();
                let p = proportion::Stats::new(bs.len(), k);
                *s = p + *s;
            }
            6 => {
                for &b in &bs {
                    let p = proportion::Stats::new(1, b as usize);
                    *s += p;
                }
            }
            7 => s.extend(&bs.iter().copied().collect::<VecDeque<bool>>()),
            _ => {
                let mut p = proportion::Stats::default();
                p.extend(&bs);
                *s = *s + p;
            }
        });
        match r {
            Ok(()) => Out::Ok(()),
            Err(p) => Out::Panic(p),
        }
    }
    fn style_name(style: u8) -> &'static str {
        [
            "add_success/add_failure loop",
            "extend(&Vec<bool>)",
            "extend_if(&Vec<i32>, >0)",
            "collect() exact-size; s=s+p",
            "collect() over filter/flat_map/chain/from_fn; s+=p",
            "new(n,k); s=p+s",
            "new(1,b) each; s+=p",
            "extend(&VecDeque<bool>)",
            "default+extend; s=s+p",
        ][(style % 9) as usize]
    }
    fn merge(a: Self::S, b: Self::S, op: u8) -> Self::S {
        match op % Self::N_MERGE {
            0 => a + b,
            1 => b + a,
            2 => {
                let mut a = a;
                a += b;
                a
            }
            _ => {
                let mut b = b;
                b += a;
                b
            }
        }
    }
    fn fork(a: &Self::S, how: u8) -> Self::S {
        if how % 2 == 0 {
            *a
        } else {
            #[allow(clippy::clone_on_copy)]
            a.clone()
        }
    }
    fn fingerprint(s: &Self::S) -> String {
        format!("{:?}", s)
    }
    fn observe(s: &Self::S, plan: ObsPlan) -> Obs {
        let mut o: Obs = Vec::new();
        o.push((What::Count(0), Val::U(s.population() as u64)));
        o.push((What::Count(1), Val::U(s.successes() as u64)));
        o.push((
            What::Signif,
            match guard(|| s.is_significant()) {
                Ok(b) => Val::B(b),
                Err(p) => Val::Panic(p),
            },
        ));
        for &c in plan.confs {
            o.push((What::Ci(c), Val::Ci(call(|| s.ci(conf(c)), |i| iv_f(&i)))));
        }
        o
    }
    fn batch(recs: [&[Bits]; 2], plan: ObsPlan) -> Result<(Self::S, Vec<(u8, Out<Iv>)>), String> {
        let bs: Vec<bool> = recs[0].iter().map(|&b| b != 0).collect();
        let st: proportion::Stats = bs.iter().copied().collect();
        let n = bs.len();
        let k = bs.iter().filter(|&&b| b).count();
        let cis = plan
            .confs
            .iter()
            .enumerate()
            .map(|(i, &c)| {
                // alternate between the three documented one-shot front-ends
                let r = match i % 3 {
                    0 => call(|| proportion::ci_true(conf(c), &bs), |i| iv_f(&i)),
                    1 => call(|| proportion::ci(conf(c), n, k), |i| iv_f(&i)),
                    _ => call(|| proportion::ci_if(conf(c), &bs, |&b| b), |i| iv_f(&i)),
                };
                (c, r)
            })
            .collect();
        Ok((st, cis))
    }
    fn tspace(a: Bits, _b: Bits) -> (f64, f64) {
        (a as f64, a as f64)
    }
    type Twin = Self;
}

// ------------------------------------------------------------------------------------------
// quantile::Stats  (records carry no information: only the population matters)
// ------------------------------------------------------------------------------------------

pub struct MQuant;

impl Machine for MQuant {
    type S = quantile::Stats;
    const FLT: Flt = Flt::Int;
    const FAMILY: Family = Family::Count;
    const TRANSFORM: Transform = Transform::Id;
    const STREAMS: usize = 1;
    const LOCKSTEP: bool = false;
    const N_STYLES: u8 = 4;
    const N_EMPTY: u8 = 2;
    const N_MERGE: u8 = 4;
    const HAS_VAR: bool = false;

    fn name() -> String {
        "quantile::Stats".into()
    }
    fn unit_roundoff() -> f64 {
        0.0
    }
    fn empty(v: u8) -> Self::S {
        if v % 2 == 0 {
            quantile::Stats::default()
        } else {
            quantile::Stats::new(0)
        }
    }
    fn deliver(s: &mut Self::S, style: u8, _stream: usize, recs: [&[Bits]; 2]) -> Out<()> {
        let n = recs[0].len();
        let r = guard(|| match style % Self::N_STYLES {
            0 => *s = *s + quantile::Stats::new(n),
            1 => *s += quantile::Stats::new(n),
            2 => *s = quantile::Stats::new(n) + *s,
            _ => {
                for _ in 0..n {
                    *s += quantile::Stats::new(1);
                }
            }
        });
        match r {
            Ok(()) => Out::Ok(()),
            Err(p) => Out::Panic(p),
        }
    }
    fn style_name(style: u8) -> &'static str {
        ["s=s+new(n)", "s+=new(n)", "s=new(n)+s", "s+=new(1) each"][(style % 4) as usize]
    }
    fn merge(a: Self::S, b: Self::S, op: u8) -> Self::S {
        match op % Self::N_MERGE {
            0 => a + b,
            1 => b + a,
            2 => {
                let mut a = a;
                a += b;
                a
            }
            _ => {
                let mut b = b;
                b += a;
                b
            }
        }
    }
    fn fork(a: &Self::S, how: u8) -> Self::S {
        if how % 2 == 0 {
            *a
        } else {
            #[allow(clippy::clone_on_copy)]
            a.clone()
        }
    }
    fn fingerprint(s: &Self::S) -> String {
        format!("{:?}", s)
    }
    fn observe(s: &Self::S, plan: ObsPlan) -> Obs {
        let mut o: Obs = Vec::new();
        // quantile::Stats has no accessor for its population: Debug is the only window
        let fp = format!("{:?}", s);
        let pop = fp
            .trim_start_matches("Stats { population: ")
            .trim_end_matches(" }")
            .parse::<u64>()
            .unwrap_or_else(|_| match s.index(1.0) {
                // fallback through the documented accessor: index(1.0) is the last index
                Ok(i) => i as u64 + 1,
                Err(_) => 0,
            });
        o.push((What::Count(0), Val::U(pop)));
        for (qi, &q) in QUANTILES.iter().enumerate() {
            o.push((What::QIndex(qi as u8), Val::Idx(call(|| s.index(q), |i| i as u64))));
            for &c in plan.confs {
                o.push((What::QCi(c, qi as u8), Val::Ci(call(|| s.ci(conf(c), q), |i| iv_u(&i)))));
            }
        }
        o
    }
    fn batch(recs: [&[Bits]; 2], plan: ObsPlan) -> Result<(Self::S, Vec<(u8, Out<Iv>)>), String> {
        let n = recs[0].len();
        let st = quantile::Stats::new(n);
        // one-shot reference: ci_indices(conf, n, q) at the median
        let cis = plan
            .confs
            .iter()
            .map(|&c| (c, call(|| quantile::ci_indices(conf(c), n, QUANTILES[2]), |i| iv_u(&i))))
            .collect();
        Ok((st, cis))
    }
    fn tspace(_a: Bits, _b: Bits) -> (f64, f64) {
        (1.0, 1.0)
    }
    type Twin = Self;
}

/// Dispatch a generic function over every machine kind by name.
#[macro_export]
macro_rules! dispatch_machine {
    ($name:expr, $f:ident, $($args:expr),*) => {{
        use $crate::machines::*;
        match $name {
            "KahanSum<f32>" => $f::<MKahan<f32>>($($args),*),
            "KahanSum<f64>" => $f::<MKahan<f64>>($($args),*),
            "Arithmetic<f32>" => $f::<MArith<f32>>($($args),*),
            "Arithmetic<f64>" => $f::<MArith<f64>>($($args),*),
            "Geometric<f32>" => $f::<MGeo<f32>>($($args),*),
            "Geometric<f64>" => $f::<MGeo<f64>>($($args),*),
            "Harmonic<f32>" => $f::<MHarm<f32>>($($args),*),
            "Harmonic<f64>" => $f::<MHarm<f64>>($($args),*),
            "Paired<f32>" => $f::<MPaired<f32>>($($args),*),
            "Paired<f64>" => $f::<MPaired<f64>>($($args),*),
            "Unpaired<f32>" => $f::<MUnpaired<f32>>($($args),*),
            "Unpaired<f64>" => $f::<MUnpaired<f64>>($($args),*),
            "proportion::Stats" => $f::<MProp>($($args),*),
            "quantile::Stats" => $f::<MQuant>($($args),*),
            other => panic!("unknown machine {other}"),
        }
    }};
}

pub const ALL_MACHINES: [&str; 14] = [
    "KahanSum<f32>",
    "KahanSum<f64>",
    "Arithmetic<f32>",
    "Arithmetic<f64>",
    "Geometric<f32>",
    "Geometric<f64>",
    "Harmonic<f32>",
    "Harmonic<f64>",
    "Paired<f32>",
    "Paired<f64>",
    "Unpaired<f32>",
    "Unpaired<f64>",
    "proportion::Stats",
    "quantile::Stats",
];
