//! Batch runner: spreads independent simulated runs over OS threads. Each run is single-threaded
//! and a pure function of (VERIF_SEED, property, config, machine, run index); all aggregates are
//! commutative (sums, maxima, set unions) and for every violation key the reported instance is
//! the one with the lowest job number, so the output does not depend on the number of workers.

use crate::free::Reach;
use crate::oracle::{Stats, Violation};
use serde_json::{json, Value};
use std::collections::{BTreeMap, BTreeSet, HashSet};
use std::sync::atomic::{AtomicU64, Ordering};
use std::sync::Mutex;

pub struct JobOut<T> {
    /// the replayable artifact of this run (kept only when it violates something)
    pub artifact: Option<T>,
    pub violations: Vec<Violation>,
    pub reach: Reach,
    pub nontrivial: bool,
    /// fault kinds that actually fired in this run (fault configurations)
    pub fired: Vec<(String, u64)>,
    pub sample: Option<Value>,
    pub label: (u32, String),
}

pub struct Batch<T> {
    pub name: String,
    pub evaluations: u64,
    pub stats: Stats,
    pub shapes: HashSet<u64>,
    pub nontrivial_shapes: HashSet<u64>,
    pub trees: HashSet<u64>,
    pub states: BTreeSet<(u32, u32)>,
    pub steps: u64,
    pub records: u64,
    pub fired: BTreeMap<String, u64>,
    pub samples: Vec<Value>,
    /// per violation key: (lowest job, artifact, violation)
    pub violations: BTreeMap<(String, String), (u64, T, Violation)>,
    pub wall_s: f64,
    pub per_label: BTreeMap<String, u64>,
}

impl<T> Default for Batch<T> {
    fn default() -> Self {
        Batch {
            name: String::new(),
            evaluations: 0,
            stats: Stats::default(),
            shapes: HashSet::new(),
            nontrivial_shapes: HashSet::new(),
            trees: HashSet::new(),
            states: BTreeSet::new(),
            steps: 0,
            records: 0,
            fired: BTreeMap::new(),
            samples: Vec::new(),
            violations: BTreeMap::new(),
            wall_s: 0.0,
            per_label: BTreeMap::new(),
        }
    }
}

impl<T> Batch<T> {
    pub fn absorb(&mut self, o: Batch<T>) {
        self.evaluations += o.evaluations;
        self.stats.merge(&o.stats);
        self.shapes.extend(o.shapes);
        self.nontrivial_shapes.extend(o.nontrivial_shapes);
        self.trees.extend(o.trees);
        self.states.extend(o.states);
        self.steps += o.steps;
        self.records += o.records;
        for (k, v) in o.fired {
            *self.fired.entry(k).or_insert(0) += v;
        }
        self.samples.extend(o.samples);
        for (k, v) in o.violations {
            match self.violations.get(&k) {
                Some(cur) if cur.0 <= v.0 => {}
                _ => {
                    self.violations.insert(k, v);
                }
            }
        }
        self.wall_s += o.wall_s;
        for (k, v) in o.per_label {
            *self.per_label.entry(k).or_insert(0) += v;
        }
    }
    /// the violation with the lowest job number
    pub fn first_violation(&self) -> Option<&(u64, T, Violation)> {
        self.violations.values().min_by_key(|v| v.0)
    }
    pub fn to_json(&self) -> Value {
        json!({
            "name": self.name,
            "evaluations": self.evaluations,
            "distinct_trace_shapes": self.shapes.len(),
            "distinct_nontrivial_trace_shapes": self.nontrivial_shapes.len(),
            "distinct_merge_trees": self.trees.len(),
            "abstract_states_visited": self.states.len(),
            "simulated_steps": self.steps,
            "records_delivered": self.records,
            "fault_kinds_fired": self.fired,
            "counters": self.stats.counters,
            "worst_ratio_over_tolerance": self.stats.worst,
            "runs_per_label": self.per_label,
            "wall_s": self.wall_s,
        })
    }
}

pub fn n_workers() -> usize {
    std::env::var("VERIF_WORKERS")
        .ok()
        .and_then(|s| s.parse().ok())
        .unwrap_or_else(|| std::thread::available_parallelism().map(|n| n.get()).unwrap_or(4))
        .max(1)
}

/// Runs jobs 0..n_jobs. With `stop_at_first` the batch stops scheduling jobs above the lowest
/// failing job (C08/C09: one violation is enough); without it every job runs and one instance
/// per violation key is kept (C05/C11/C20: distinct findings are triaged separately).
pub fn run_batch<T: Send + Clone, F>(name: &str, n_jobs: u64, stop_at_first: bool, job: F) -> Batch<T>
where
    F: Fn(u64, &mut Stats) -> JobOut<T> + Sync,
{
    let t0 = std::time::Instant::now();
    let next = AtomicU64::new(0);
    let min_fail = AtomicU64::new(u64::MAX);
    let samples: Mutex<Vec<(u64, Value)>> = Mutex::new(Vec::new());
    let workers = n_workers();
    let mut parts: Vec<Batch<T>> = Vec::new();
    std::thread::scope(|sc| {
        let mut hs = Vec::new();
        for _ in 0..workers {
            hs.push(sc.spawn(|| {
                let mut b: Batch<T> = Batch::default();
                loop {
                    let start = next.fetch_add(32, Ordering::Relaxed);
                    if start >= n_jobs {
                        break;
                    }
                    for j in start..(start + 32).min(n_jobs) {
                        if stop_at_first && j > min_fail.load(Ordering::Relaxed) {
                            continue;
                        }
                        let out = job(j, &mut b.stats);
                        let (mi, mname) = out.label;
                        b.evaluations += 1;
                        *b.per_label.entry(mname).or_insert(0) += 1;
                        b.shapes.insert(out.reach.shape);
                        if out.nontrivial {
                            b.nontrivial_shapes.insert(out.reach.shape);
                        }
                        b.trees.extend(out.reach.trees.iter().copied());
                        for s in &out.reach.states {
                            b.states.insert((mi, *s));
                        }
                        b.steps += out.reach.steps;
                        b.records += out.reach.records;
                        for (k, v) in out.fired {
                            *b.fired.entry(k).or_insert(0) += v;
                        }
                        if let Some(s) = out.sample {
                            samples.lock().unwrap().push((j, s));
                        }
                        if !out.violations.is_empty() {
                            min_fail.fetch_min(j, Ordering::Relaxed);
                            let art = out.artifact.expect("violating job must return its artifact");
                            for v in out.violations.into_iter() {
                                let k = v.key();
                                let better = match b.violations.get(&k) {
                                    Some(cur) => j < cur.0,
                                    None => true,
                                };
                                if better {
                                    b.violations.insert(k, (j, art.clone(), v));
                                }
                            }
                        }
                    }
                }
                b
            }));
        }
        for h in hs {
            parts.push(h.join().expect("worker thread panicked (harness error)"));
        }
    });
    let mut total: Batch<T> = Batch { name: name.to_string(), ..Default::default() };
    for p in parts {
        total.absorb(p);
    }
    let mut s = samples.into_inner().unwrap();
    s.sort_by_key(|(j, _)| *j);
    total.samples = s.into_iter().map(|(_, v)| v).collect();
    total.wall_s = t0.elapsed().as_secs_f64();
    total.name = name.to_string();
    total
}
