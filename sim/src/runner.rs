//! Batch runner: spreads independent simulated runs over OS threads. Each run is single-threaded
//! and a pure function of (VERIF_SEED, property, config, machine, run index); all aggregates are
//! commutative (sums, maxima, set unions) and the reported violation is the one with the lowest
//! job number, so the output does not depend on the number of worker threads.

use crate::free::{Reach, Trace};
use crate::oracle::{Stats, Violation};
use serde_json::{json, Value};
use std::collections::{BTreeMap, BTreeSet, HashSet};
use std::sync::atomic::{AtomicU64, Ordering};
use std::sync::Mutex;

pub struct JobOut {
    pub trace: Option<Trace>, // kept only for samples and violations
    pub violation: Option<Violation>,
    pub reach: Reach,
    pub nontrivial: bool,
    /// fault kinds that actually fired in this run (fault configurations)
    pub fired: Vec<(String, u64)>,
}

#[derive(Default)]
pub struct Batch {
    pub name: String,
    pub evaluations: u64,
    pub stats: Stats,
    pub shapes: HashSet<u64>,
    pub nontrivial_shapes: HashSet<u64>,
    pub trees: HashSet<u64>,
    pub states: BTreeSet<(u32, u32)>,
    pub steps: u64,
    pub records: u64,
    pub fired: BTreeMap<String, u64>,
    pub samples: Vec<Value>,
    pub violation: Option<Trace>,
    pub wall_s: f64,
    pub per_machine: BTreeMap<String, u64>,
}

impl Batch {
    pub fn absorb(&mut self, o: Batch) {
        self.evaluations += o.evaluations;
        self.stats.merge(&o.stats);
        self.shapes.extend(o.shapes);
        self.nontrivial_shapes.extend(o.nontrivial_shapes);
        self.trees.extend(o.trees);
        self.states.extend(o.states);
        self.steps += o.steps;
        self.records += o.records;
        for (k, v) in o.fired {
            *self.fired.entry(k).or_insert(0) += v;
        }
        self.samples.extend(o.samples);
        if self.violation.is_none() {
            self.violation = o.violation;
        }
        self.wall_s += o.wall_s;
        for (k, v) in o.per_machine {
            *self.per_machine.entry(k).or_insert(0) += v;
        }
    }
    pub fn to_json(&self) -> Value {
        json!({
            "name": self.name,
            "evaluations": self.evaluations,
            "distinct_trace_shapes": self.shapes.len(),
            "distinct_nontrivial_trace_shapes": self.nontrivial_shapes.len(),
            "distinct_merge_trees": self.trees.len(),
            "abstract_states_visited": self.states.len(),
            "simulated_steps": self.steps,
            "records_delivered": self.records,
            "fault_kinds_fired": self.fired,
            "counters": self.stats.counters,
            "worst_ratio_over_tolerance": self.stats.worst,
            "runs_per_machine": self.per_machine,
            "wall_s": self.wall_s,
        })
    }
}

pub fn n_workers() -> usize {
    std::env::var("VERIF_WORKERS")
        .ok()
        .and_then(|s| s.parse().ok())
        .unwrap_or_else(|| std::thread::available_parallelism().map(|n| n.get()).unwrap_or(4))
        .max(1)
}

/// Runs jobs 0..n_jobs; `job(j, stats)` executes one run. `machine_of(j)` labels it.
pub fn run_batch<F>(name: &str, n_jobs: u64, n_samples: usize, machine_of: &(dyn Fn(u64) -> (u32, String) + Sync), job: F) -> Batch
where
    F: Fn(u64, &mut Stats) -> JobOut + Sync,
{
    let t0 = std::time::Instant::now();
    let next = AtomicU64::new(0);
    let min_fail = AtomicU64::new(u64::MAX);
    let fails: Mutex<Vec<(u64, Trace)>> = Mutex::new(Vec::new());
    let samples: Mutex<Vec<(u64, Value)>> = Mutex::new(Vec::new());
    let workers = n_workers();
    let mut parts: Vec<Batch> = Vec::new();
    std::thread::scope(|sc| {
        let mut hs = Vec::new();
        for _ in 0..workers {
            hs.push(sc.spawn(|| {
                let mut b = Batch::default();
                loop {
                    let start = next.fetch_add(32, Ordering::Relaxed);
                    if start >= n_jobs {
                        break;
                    }
                    for j in start..(start + 32).min(n_jobs) {
                        if j > min_fail.load(Ordering::Relaxed) {
                            continue;
                        }
                        let out = job(j, &mut b.stats);
                        let (mi, mname) = machine_of(j);
                        b.evaluations += 1;
                        *b.per_machine.entry(mname).or_insert(0) += 1;
                        b.shapes.insert(out.reach.shape);
                        if out.nontrivial {
                            b.nontrivial_shapes.insert(out.reach.shape);
                        }
                        b.trees.extend(out.reach.trees.iter().copied());
                        for s in &out.reach.states {
                            b.states.insert((mi, *s));
                        }
                        b.steps += out.reach.steps;
                        b.records += out.reach.records;
                        for (k, v) in out.fired {
                            *b.fired.entry(k).or_insert(0) += v;
                        }
                        if (j as usize) < n_samples {
                            if let Some(t) = &out.trace {
                                samples.lock().unwrap().push((j, sample_of(t)));
                            }
                        }
                        if let Some(v) = out.violation {
                            let mut t = out.trace.expect("violating job must return its trace");
                            t.violation = Some(v);
                            min_fail.fetch_min(j, Ordering::Relaxed);
                            fails.lock().unwrap().push((j, t));
                        }
                    }
                }
                b
            }));
        }
        for h in hs {
            parts.push(h.join().expect("worker thread panicked (harness error)"));
        }
    });
    let mut total = Batch { name: name.to_string(), ..Default::default() };
    for p in parts {
        total.absorb(p);
    }
    let mut s = samples.into_inner().unwrap();
    s.sort_by_key(|(j, _)| *j);
    total.samples = s.into_iter().map(|(_, v)| v).collect();
    let mut f = fails.into_inner().unwrap();
    f.sort_by_key(|(j, _)| *j);
    total.violation = f.into_iter().next().map(|(_, t)| t);
    total.wall_s = t0.elapsed().as_secs_f64();
    total.name = name.to_string();
    total
}

/// a compact, human-readable rendering of a run for the evidence file
pub fn sample_of(t: &Trace) -> Value {
    let evs: Vec<String> = t.events.iter().take(24).map(|e| format!("{:?}", e)).collect();
    json!({
        "config": t.config, "machine": t.machine, "run_index": t.run_index,
        "tapes": [tape_brief(&t.tapes[0]), tape_brief(&t.tapes[1])],
        "exact_data": t.exact_data,
        "knobs": t.knobs,
        "n_events": t.events.len(),
        "first_events": evs,
    })
}

fn tape_brief(t: &crate::tape::TapeSpec) -> Value {
    match t {
        crate::tape::TapeSpec::Explicit(v) => json!({"explicit_len": v.len()}),
        crate::tape::TapeSpec::Gen { family, len, scale_exp, .. } => {
            json!({"family": crate::tape::FAMILY_NAMES[*family as usize % 10], "len": len, "scale_exp": scale_exp})
        }
    }
}
