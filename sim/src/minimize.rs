//! Minimisation of a failing trace: ddmin over the event list (any subsequence is a valid
//! program), then shrinking of chunk lengths, tape truncation and simplification of tape values,
//! accepting a candidate only while the *same* (property, invariant) violation persists.

use crate::free::Trace;
use crate::machines::Flt;
use crate::oracle::Violation;
use crate::tape::TapeSpec;
use crate::world::Event;
use std::time::{Duration, Instant};

pub struct Budget {
    pub max_exec: usize,
    pub deadline: Instant,
    pub used: usize,
}

impl Budget {
    pub fn new(max_exec: usize, secs: u64) -> Self {
        Budget { max_exec, deadline: Instant::now() + Duration::from_secs(secs), used: 0 }
    }
    fn ok(&self) -> bool {
        self.used < self.max_exec && Instant::now() < self.deadline
    }
}

pub fn minimize(tr: &Trace, exec: &dyn Fn(&Trace) -> Option<Violation>, budget: &mut Budget) -> Trace {
    let key = match &tr.violation {
        Some(v) => v.key(),
        None => return tr.clone(),
    };
    let mut best = tr.clone();
    let mut test = |cand: &Trace, budget: &mut Budget| -> Option<Violation> {
        budget.used += 1;
        match exec(cand) {
            Some(v) if v.key() == key => Some(v),
            _ => None,
        }
    };
    // tapes that are too long to make explicit stay recipes; only events are minimised then
    let explicit_ok = best.tapes.iter().all(|t| t.len() <= 200_000);
    // ---- ddmin over events
    let mut n = 2usize;
    while best.events.len() >= 2 && budget.ok() {
        let len = best.events.len();
        let chunk = (len + n - 1) / n;
        let mut reduced = false;
        let mut i = 0;
        while i < len && budget.ok() {
            let mut cand = best.clone();
            let hi = (i + chunk).min(len);
            cand.events.drain(i..hi);
            if let Some(v) = test(&cand, budget) {
                cand.violation = Some(v);
                best = cand;
                n = (n - 1).max(2);
                reduced = true;
                break;
            }
            i += chunk;
        }
        if !reduced {
            if chunk == 1 {
                break;
            }
            n = (n * 2).min(len);
        }
    }
    // ---- one-by-one removal (cheap final pass)
    let mut i = 0;
    while i < best.events.len() && budget.ok() {
        let mut cand = best.clone();
        cand.events.remove(i);
        if let Some(v) = test(&cand, budget) {
            cand.violation = Some(v);
            best = cand;
        } else {
            i += 1;
        }
    }
    // ---- shrink delivery lengths and query confidence lists
    for i in 0..best.events.len() {
        if !budget.ok() {
            break;
        }
        loop {
            let cur = best.events[i].clone();
            let smaller = match &cur {
                Event::Deliver { dst, stream, len, style, ctor } if *len > 1 => {
                    Some(Event::Deliver { dst: *dst, stream: *stream, len: len / 2, style: *style, ctor: *ctor })
                }
                Event::Fault { dst, stream, len, style, kind, pos, payload } if *len > 1 && *pos < len / 2 => Some(Event::Fault {
                    dst: *dst,
                    stream: *stream,
                    len: len / 2,
                    style: *style,
                    kind: *kind,
                    pos: *pos,
                    payload: *payload,
                }),
                Event::Query { a, confs } if confs.len() > 1 => Some(Event::Query { a: *a, confs: confs[..confs.len() - 1].to_vec() }),
                _ => None,
            };
            let Some(sm) = smaller else { break };
            let mut cand = best.clone();
            cand.events[i] = sm;
            if !budget.ok() {
                break;
            }
            if let Some(v) = test(&cand, budget) {
                cand.violation = Some(v);
                best = cand;
            } else {
                break;
            }
        }
    }
    if !explicit_ok {
        return best;
    }
    // ---- make tapes explicit, truncate to what the events can consume
    {
        let mut cand = best.clone();
        for k in 0..2 {
            cand.tapes[k] = TapeSpec::Explicit(cand.tapes[k].materialize());
        }
        let need: u64 = cand
            .events
            .iter()
            .map(|e| match e {
                Event::Deliver { len, .. } | Event::Fault { len, .. } => *len as u64,
                _ => 0,
            })
            .sum();
        for k in 0..2 {
            if let TapeSpec::Explicit(v) = &mut cand.tapes[k] {
                if (v.len() as u64) > need {
                    v.truncate(need as usize);
                }
            }
        }
        if let Some(v) = test(&cand, budget) {
            cand.violation = Some(v);
            best = cand;
        } else {
            // keep recipes if making them explicit changes the outcome (should not happen)
            return best;
        }
    }
    // ---- simplify tape values towards 1, small integers, halves
    let flt = flt_of(&best.machine);
    if flt != Flt::Int {
        for k in 0..2 {
            let n = best.tapes[k].len();
            if n > 64 {
                continue;
            }
            for i in 0..n {
                if !budget.ok() {
                    return best;
                }
                let cur = match &best.tapes[k] {
                    TapeSpec::Explicit(v) => v[i],
                    _ => continue,
                };
                let curv = crate::tape::decode(cur, flt);
                for simple in simpler_values(curv) {
                    let b = match flt {
                        Flt::F32 => (simple as f32).to_bits() as u64,
                        _ => simple.to_bits(),
                    };
                    if b == cur {
                        break;
                    }
                    let mut cand = best.clone();
                    if let TapeSpec::Explicit(v) = &mut cand.tapes[k] {
                        v[i] = b;
                    }
                    if !budget.ok() {
                        return best;
                    }
                    if let Some(v) = test(&cand, budget) {
                        cand.violation = Some(v);
                        best = cand;
                        break;
                    }
                }
            }
        }
    }
    best
}

fn simpler_values(x: f64) -> Vec<f64> {
    if !x.is_finite() {
        return vec![];
    }
    let s = if x < 0.0 { -1.0 } else { 1.0 };
    let mut v = vec![1.0, s, 2.0 * s, 0.5 * s];
    // nearest power of two and rounded-to-few-digits versions
    if x != 0.0 {
        let p = 2f64.powi(x.abs().log2().round() as i32) * s;
        v.push(p);
        let mag = 10f64.powi(x.abs().log10().floor() as i32);
        v.push((x / mag).round() * mag);
        v.push((x / mag * 10.0).round() * mag / 10.0);
    }
    v
}

pub fn flt_of(machine: &str) -> Flt {
    if machine.contains("f32") {
        Flt::F32
    } else if machine.contains("f64") {
        Flt::F64
    } else {
        Flt::Int
    }
}
