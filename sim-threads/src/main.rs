//! Engine B: the README's parallel usage executed as real thread code whose interleaving a seeded
//! scheduler owns (shuttle). Four scenario families (S1 work queue + lock-based combine, S2
//! channel fan-in, S3 shared running aggregate + monitor, S4 fork-join tree reduce), generic over
//! the machine kinds; workload is drawn from `shuttle::rand` so that it is part of the schedule.
//!
//! Bridge to Engine A: every scenario logs the logical operations it performs (which chunk went
//! into which partial state with which style; which two partials were merged in which
//! orientation) inside the critical section that publishes their result. After the threads have
//! joined, the log is converted into an Engine-A event list over a tape that holds the chunks in
//! delivery order, and `free::exec` replays it sequentially with the C09 oracle. Because
//! stats-ci states are plain data, the sequential replay must reproduce the thread result
//! bit for bit (Debug fingerprint); if it does not, the failure is thread-level. S3 records what a
//! monitor thread saw under the lock; each observation must be bit-identical to the replayed
//! state after exactly the operations committed before it in lock order (linearizability against
//! the sequential model).
//!
//!   sim-threads run <quick|thorough> --out <partial.json> [--replays <dir>]
//!   sim-threads replay <file>

#[path = "../../sim/src/cases.rs"]
mod cases;
#[path = "../../sim/src/exact.rs"]
mod exact;
#[path = "../../sim/src/faulty.rs"]
mod faulty;
#[path = "../../sim/src/free.rs"]
mod free;
#[path = "../../sim/src/machines.rs"]
mod machines;
#[path = "../../sim/src/minimize.rs"]
mod minimize;
#[path = "../../sim/src/oracle.rs"]
mod oracle;
#[path = "../../sim/src/rng.rs"]
mod rng;
#[path = "../../sim/src/tape.rs"]
mod tape;
#[path = "../../sim/src/world.rs"]
mod world;

use free::Trace;
use machines::*;
use oracle::{Stats, Violation};
use serde_json::{json, Value};
use shuttle::rand::Rng as _;
use shuttle::sync::{mpsc, Arc, Mutex};
use shuttle::thread;
use std::collections::{BTreeMap, BTreeSet, VecDeque};
use std::path::PathBuf;
use tape::TapeSpec;
use world::Event;

pub const DEFAULT_SEED: u64 = 20260929;

/// set once in `main` before any shard starts (plain std atomic: not a scheduling point)
static C08_MODE: std::sync::atomic::AtomicBool = std::sync::atomic::AtomicBool::new(false);
fn c08() -> bool {
    C08_MODE.load(std::sync::atomic::Ordering::Relaxed)
}
fn free_pid() -> &'static str {
    if c08() {
        "C08"
    } else {
        "C09"
    }
}

fn verif_seed() -> u64 {
    std::env::var("VERIF_SEED").ok().and_then(|s| s.trim().parse::<u64>().ok()).unwrap_or(DEFAULT_SEED)
}

// ------------------------------------------------------------------------------------------
// workload
// ------------------------------------------------------------------------------------------

#[derive(Clone)]
struct Chunk {
    id: u32,
    recs: [Vec<Bits>; 2],
    style: u8,
    ctor: u8,
}

struct Workload {
    chunks: Vec<Chunk>,
    n_workers: usize,
    exact_data: bool,
    knobs: Value,
}

fn srand(n: u64) -> u64 {
    shuttle::rand::thread_rng().gen_range(0..n)
}

/// styles that hand the library a complete chunk of every stream at once (so that one Engine-A
/// Deliver event describes the delivery)
fn chunk_styles<M: Machine>() -> Vec<u8> {
    match M::FAMILY {
        Family::Unpaired => vec![6, 7, 8, 9],
        _ => (0..M::N_STYLES).collect(),
    }
}

fn draw_workload<M: Machine>() -> Workload {
    let flt = M::FLT;
    let positive = matches!(M::TRANSFORM, Transform::Ln | Transform::Recip);
    let mut family = if flt == Flt::Int { srand(10) as u8 } else { srand(tape::N_FAMILIES as u64) as u8 };
    if c08() {
        // the register families of Engine A's C08 configuration: extreme magnitudes, a head with
        // vanishing increments, alternating signs, integers beyond the mantissa
        if M::FAMILY == Family::Sum && srand(10) < 3 {
            family = [tape::FAM_TINY, tape::FAM_HUGE, tape::FAM_VANISHING, tape::FAM_NEAR_UNDERFLOW, tape::FAM_NEAR_UNDERFLOW, tape::FAM_INT_BEYOND_MANTISSA][srand(6) as usize];
        }
        if srand(100) < 8 {
            family = tape::FAM_ALTERNATING;
        }
        if M::FAMILY == Family::Mean && srand(100) < 8 {
            family = tape::FAM_INT_BEYOND_MANTISSA;
        }
        if srand(100) < 10 {
            family = tape::FAM_VANISHING;
        }
    }
    let exact_data = family == tape::FAM_EXACT && !positive && flt != Flt::Int;
    let n_chunks = 1 + srand(if c08() { [4u64, 12, 40, 96][srand(4) as usize] } else { 8 }) as usize;
    let scale_exp = if flt == Flt::Int || family == tape::FAM_TINY || family == tape::FAM_HUGE || family == tape::FAM_NEAR_UNDERFLOW { 0 } else { srand(41) as i32 - 20 };
    let styles = chunk_styles::<M>();
    let seed = shuttle::rand::thread_rng().gen::<u64>();
    // C08: rounding errors need terms, so chunks are longer (up to ~2 800 records per execution)
    let lens: Vec<usize> = (0..n_chunks).map(|_| if c08() { [0usize, 1, 2, 3, 5, 13, 34, 89][srand(8) as usize] } else { [0usize, 1, 1, 2, 3, 5, 8, 13][srand(8) as usize] }).collect();
    let total: usize = lens.iter().sum();
    let t0 = tape::gen_tape(family, seed, total, flt, positive, scale_exp);
    let fam1 = if exact_data { family } else { [0u8, 1, 2, 3, 7][srand(5) as usize] };
    let t1 = if M::STREAMS == 2 { tape::gen_tape(fam1, seed ^ 0xABCD, total, flt, positive, scale_exp) } else { vec![] };
    let mut chunks = Vec::new();
    let mut off = 0;
    for (i, &len) in lens.iter().enumerate() {
        let a = t0[off..off + len].to_vec();
        let b = if M::STREAMS == 2 { t1[off..off + len].to_vec() } else { vec![] };
        off += len;
        chunks.push(Chunk { id: i as u32, recs: [a, b], style: styles[srand(styles.len() as u64) as usize], ctor: srand(M::N_EMPTY as u64) as u8 });
    }
    let n_workers = 2 + srand(3) as usize;
    Workload { chunks, n_workers, exact_data, knobs: json!({"family": tape::FAMILY_NAMES[family as usize % tape::FAMILY_NAMES.len()], "chunk_lens": lens, "workers": n_workers}) }
}

/// operators whose first operand is the left one / the right one
fn left_ops<M: Machine>() -> Vec<u8> {
    if M::N_MERGE == 6 {
        vec![0, 2, 3]
    } else {
        vec![0, 2]
    }
}
fn right_ops<M: Machine>() -> Vec<u8> {
    if M::N_MERGE == 6 {
        vec![1, 4, 5]
    } else {
        vec![1, 3]
    }
}

// ------------------------------------------------------------------------------------------
// logical log -> Engine A trace
// ------------------------------------------------------------------------------------------

#[derive(Clone, Debug)]
enum Log {
    /// chunk `chunk` was accumulated into the (fresh or existing) partial `slot`
    Deliver { slot: u16, chunk: u32 },
    Merge { a: u16, b: u16, op: u8 },
    MergeEmpty { a: u16, side: u8, op: u8 },
    /// a monitor cloned slot `a` under the lock and saw this fingerprint
    Observe { a: u16, fingerprint: String },
}

fn bridge<M: Machine>(scenario: &str, w: &Workload, log: &[Log], root: u16) -> (Trace, Vec<String>) {
    let mut tapes: [Vec<Bits>; 2] = [Vec::new(), Vec::new()];
    let mut events = Vec::new();
    let mut observed = Vec::new();
    for l in log {
        match l {
            Log::Deliver { slot, chunk } => {
                let c = &w.chunks[*chunk as usize];
                tapes[0].extend_from_slice(&c.recs[0]);
                tapes[1].extend_from_slice(&c.recs[1]);
                events.push(Event::Deliver { dst: *slot, stream: 0, len: c.recs[0].len() as u32, style: c.style, ctor: c.ctor });
            }
            Log::Merge { a, b, op } => events.push(Event::Merge { a: *a, b: *b, op: *op, dst: *a }),
            Log::MergeEmpty { a, side, op } => events.push(Event::MergeEmpty { a: *a, side: *side, op: *op, ctor: 0 }),
            Log::Observe { a, fingerprint } => {
                events.push(Event::Query { a: *a, confs: vec![18] });
                observed.push(fingerprint.clone());
            }
        }
    }
    events.push(Event::Query { a: root, confs: vec![18, 19, 20] });
    let tr = Trace {
        property: free_pid().into(),
        config: "free".into(),
        machine: M::name(),
        verif_seed: verif_seed(),
        run_index: 0,
        exact_data: w.exact_data,
        isolated: false,
        tapes: [TapeSpec::Explicit(tapes[0].clone()), TapeSpec::Explicit(tapes[1].clone())],
        events,
        knobs: json!({"scenario": scenario, "workload": w.knobs}),
        violation: None,
        extra: Value::Null,
    };
    (tr, observed)
}

// ------------------------------------------------------------------------------------------
// results shared with the driver (plain std primitives: not scheduling points)
// ------------------------------------------------------------------------------------------

#[derive(Default)]
struct Collected {
    executions: u64,
    stats: Stats,
    shapes: BTreeSet<u64>,
    trees: BTreeSet<u64>,
    steps: u64,
    first_violation: Option<(Trace, Violation)>,
    samples: Vec<Value>,
    per_scenario: BTreeMap<String, u64>,
    interleavings: BTreeSet<u64>,
    fired: BTreeMap<String, u64>,
}

thread_local! {
    static COLLECT: std::cell::RefCell<Collected> = std::cell::RefCell::new(Collected::default());
}

/// Called at the end of one shuttle execution, on the execution's main task.
fn conclude<M: Machine>(scenario: &str, w: &Workload, log: Vec<Log>, root: u16, final_state: &M::S) {
    let (tr, observed) = bridge::<M>(scenario, w, &log, root);
    let mut stats = Stats::default();
    let mut probe: Vec<String> = Vec::new();
    let (viol, reach) = free::exec_probe::<M>(&tr, &mut stats, Some(&mut probe));
    let mut violation = viol;
    if violation.is_none() {
        // the sequential replay of the logical trace must reproduce the thread result exactly
        let fp = M::fingerprint(final_state);
        match probe.last() {
            Some(p) if *p == fp => {}
            other => {
                violation = Some(Violation::new(free_pid(), "thread-result-differs-from-sequential-replay-of-its-logical-trace", root, format!("threads computed {fp}, sequential replay computed {:?}", other)));
            }
        }
    }
    if violation.is_none() && !observed.is_empty() {
        // S3: every monitor observation equals the replayed state at its position in lock order
        for (i, o) in observed.iter().enumerate() {
            if probe.get(i) != Some(o) {
                violation = Some(Violation::new(
                    free_pid(),
                    "monitor-observation-not-linearizable",
                    root,
                    format!("observation {i}: monitor saw {o}, the state after exactly the operations committed before it is {:?}", probe.get(i)),
                ));
                break;
            }
        }
        stats.add("linearizability_observations_checked", observed.len() as u64);
    }
    // the interleaving as seen through its logical effect: order of log entries
    let mut d = rng::Digest::new();
    for l in &log {
        match l {
            Log::Deliver { slot, chunk } => {
                d.u64(1);
                d.u64(*slot as u64);
                d.u64(*chunk as u64);
            }
            Log::Merge { a, b, op } => {
                d.u64(2);
                d.u64(*a as u64);
                d.u64(*b as u64);
                d.u64(*op as u64);
            }
            Log::MergeEmpty { a, .. } => {
                d.u64(3);
                d.u64(*a as u64);
            }
            Log::Observe { a, .. } => {
                d.u64(4);
                d.u64(*a as u64);
            }
        }
    }
    let failed = violation.is_some();
    COLLECT.with(|c| {
        let mut c = c.borrow_mut();
        c.executions += 1;
        c.stats.merge(&stats);
        c.shapes.insert(reach.shape);
        c.interleavings.insert(d.0 ^ reach.shape);
        c.trees.extend(reach.trees.iter().copied());
        c.steps += reach.steps;
        *c.per_scenario.entry(format!("{scenario}/{}", M::name())).or_insert(0) += 1;
        if c.samples.len() < 2 {
            c.samples.push(json!({"scenario": scenario, "machine": M::name(), "workload": w.knobs, "logical_trace": log.iter().take(12).map(|l| format!("{:?}", l)).collect::<Vec<_>>()}));
        }
        if let Some(v) = violation {
            if c.first_violation.is_none() {
                c.first_violation = Some((tr, v));
            }
        }
    });
    if failed {
        // makes shuttle persist the failing schedule
        panic!("oracle violation (see replay file)");
    }
}

// ------------------------------------------------------------------------------------------
// scenarios
// ------------------------------------------------------------------------------------------

struct Shared<M: Machine> {
    queue: VecDeque<Chunk>,
    partials: Vec<(u16, M::S)>,
    log: Vec<Log>,
    next_slot: u16,
}

/// S1: work queue map + lock-based opportunistic combine
fn s1<M: Machine>() {
    let w = draw_workload::<M>();
    let shared = Arc::new(Mutex::new(Shared::<M> { queue: w.chunks.iter().cloned().collect(), partials: Vec::new(), log: Vec::new(), next_slot: 0 }));
    let lops = left_ops::<M>();
    let rops = right_ops::<M>();
    let mut hs = Vec::new();
    for _ in 0..w.n_workers {
        let sh = shared.clone();
        let (lops, rops) = (lops.clone(), rops.clone());
        hs.push(thread::spawn(move || loop {
            let chunk = { sh.lock().unwrap().queue.pop_front() };
            let Some(chunk) = chunk else { break };
            let mut local = M::empty(chunk.ctor);
            let out = M::deliver(&mut local, chunk.style, 0, [&chunk.recs[0], &chunk.recs[1]]);
            assert!(out.is_ok(), "valid delivery rejected: {}", out.class());
            thread::sleep(std::time::Duration::from_nanos(0));
            let mut g = sh.lock().unwrap();
            let s = g.next_slot;
            g.next_slot += 1;
            g.log.push(Log::Deliver { slot: s, chunk: chunk.id });
            let combine = !g.partials.is_empty() && srand(2) == 0;
            if combine {
                let k = srand(g.partials.len() as u64) as usize;
                let (t, other) = g.partials.remove(k);
                // mine on the left or on the right
                let op = if srand(2) == 0 { lops[srand(lops.len() as u64) as usize] } else { rops[srand(rops.len() as u64) as usize] };
                let merged = M::merge(local, other, op);
                g.log.push(Log::Merge { a: s, b: t, op });
                g.partials.push((s, merged));
            } else {
                g.partials.push((s, local));
            }
        }));
    }
    for h in hs {
        h.join().unwrap();
    }
    let mut g = shared.lock().unwrap();
    let mut log = std::mem::take(&mut g.log);
    let mut parts = std::mem::take(&mut g.partials);
    drop(g);
    // every execution has at least one chunk, hence at least one partial
    parts.sort_by_key(|p| p.0);
    let (rs, mut rst) = parts.remove(0);
    for (t, st) in parts {
        let op = lops[srand(lops.len() as u64) as usize];
        rst = M::merge(rst, st, op);
        log.push(Log::Merge { a: rs, b: t, op });
    }
    conclude::<M>("S1-work-queue+lock-combine", &w, log, rs, &rst);
}

/// S2: channel fan-in, the reducer folds in arrival order
fn s2<M: Machine>() {
    let w = draw_workload::<M>();
    let (tx, rx) = mpsc::channel::<(u32, M::S)>();
    let queue = Arc::new(Mutex::new(w.chunks.iter().cloned().collect::<VecDeque<Chunk>>()));
    let mut hs = Vec::new();
    for _ in 0..w.n_workers {
        let q = queue.clone();
        let tx = tx.clone();
        hs.push(thread::spawn(move || loop {
            let chunk = { q.lock().unwrap().pop_front() };
            let Some(chunk) = chunk else { break };
            let mut local = M::empty(chunk.ctor);
            let out = M::deliver(&mut local, chunk.style, 0, [&chunk.recs[0], &chunk.recs[1]]);
            assert!(out.is_ok(), "valid delivery rejected: {}", out.class());
            thread::sleep(std::time::Duration::from_nanos(0));
            tx.send((chunk.id, local)).unwrap();
        }));
    }
    drop(tx);
    // reducer: accumulated state on the left (acc += part) or on the right (acc = part + acc)
    let acc_right = srand(2) == 0;
    let lops = left_ops::<M>();
    let rops = right_ops::<M>();
    let mut log = Vec::new();
    let mut acc: Option<M::S> = None;
    let mut next: u16 = 1;
    // optionally start from the identity, as rayon's reduce does
    if srand(2) == 0 {
        acc = Some(M::empty(0));
    }
    let mut have_slot0 = false;
    while let Ok((cid, part)) = rx.recv() {
        match acc.take() {
            None => {
                log.push(Log::Deliver { slot: 0, chunk: cid });
                have_slot0 = true;
                acc = Some(part);
            }
            Some(a) => {
                if !have_slot0 {
                    // acc is the identity: the first partial lands in slot 0, then merges with empty
                    log.push(Log::Deliver { slot: 0, chunk: cid });
                    have_slot0 = true;
                    let op = if acc_right { 0 } else { 0 };
                    let merged = if acc_right { M::merge(part, a, op) } else { M::merge(a, part, op) };
                    log.push(Log::MergeEmpty { a: 0, side: if acc_right { 0 } else { 1 }, op: 0 });
                    acc = Some(merged);
                } else {
                    let s = next;
                    next += 1;
                    log.push(Log::Deliver { slot: s, chunk: cid });
                    let op = if acc_right { rops[srand(rops.len() as u64) as usize] } else { lops[srand(lops.len() as u64) as usize] };
                    acc = Some(M::merge(a, part, op));
                    log.push(Log::Merge { a: 0, b: s, op });
                }
            }
        }
    }
    for h in hs {
        h.join().unwrap();
    }
    if !have_slot0 {
        return;
    }
    conclude::<M>("S2-channel-fan-in", &w, log, 0, acc.as_ref().unwrap());
}

struct Running<M: Machine> {
    state: M::S,
    log: Vec<Log>,
    next_slot: u16,
    started: bool,
}

/// S3: shared running aggregate updated under a lock + a monitor thread that clones and queries
fn s3<M: Machine>() {
    let w = draw_workload::<M>();
    if w.chunks.is_empty() {
        return;
    }
    let shared = Arc::new(Mutex::new(Running::<M> { state: M::empty(0), log: Vec::new(), next_slot: 1, started: false }));
    let queue = Arc::new(Mutex::new(w.chunks.iter().cloned().collect::<VecDeque<Chunk>>()));
    let lops = left_ops::<M>();
    let mut hs = Vec::new();
    for _ in 0..w.n_workers {
        let sh = shared.clone();
        let q = queue.clone();
        let lops = lops.clone();
        hs.push(thread::spawn(move || loop {
            let chunk = { q.lock().unwrap().pop_front() };
            let Some(chunk) = chunk else { break };
            if srand(2) == 0 {
                // extend the shared state directly under the lock
                let mut g = sh.lock().unwrap();
                let out = M::deliver(&mut g.state, chunk.style, 0, [&chunk.recs[0], &chunk.recs[1]]);
                assert!(out.is_ok(), "valid delivery rejected: {}", out.class());
                g.log.push(Log::Deliver { slot: 0, chunk: chunk.id });
                g.started = true;
            } else {
                // accumulate locally, then `*g += local` under the lock
                let mut local = M::empty(chunk.ctor);
                let out = M::deliver(&mut local, chunk.style, 0, [&chunk.recs[0], &chunk.recs[1]]);
                assert!(out.is_ok(), "valid delivery rejected: {}", out.class());
                thread::sleep(std::time::Duration::from_nanos(0));
                let mut g = sh.lock().unwrap();
                if !g.started {
                    // slot 0 does not exist yet on the Engine-A side: create it with an empty delivery
                    g.started = true;
                }
                let s = g.next_slot;
                g.next_slot += 1;
                let op = lops[srand(lops.len() as u64) as usize];
                let cur = g.state.clone();
                g.state = M::merge(cur, local, op);
                g.log.push(Log::Deliver { slot: s, chunk: chunk.id });
                g.log.push(Log::Merge { a: 0, b: s, op });
            }
        }));
    }
    // monitor
    let mon = {
        let sh = shared.clone();
        let n_obs = 1 + srand(3) as usize;
        thread::spawn(move || {
            for _ in 0..n_obs {
                let snapshot = {
                    let mut g = sh.lock().unwrap();
                    let fp = M::fingerprint(&g.state);
                    g.log.push(Log::Observe { a: 0, fingerprint: fp });
                    g.state.clone()
                };
                // queries run outside the lock, on the copy; they must not disturb anything
                let _ = M::observe(&snapshot, ObsPlan { confs: &[18], unguarded: false });
                thread::sleep(std::time::Duration::from_nanos(0));
            }
        })
    };
    for h in hs {
        h.join().unwrap();
    }
    mon.join().unwrap();
    let mut g = shared.lock().unwrap();
    let log = std::mem::take(&mut g.log);
    let st = g.state.clone();
    drop(g);
    // slot 0 must exist before anything merges into it: an empty delivery creates it
    let mut full = vec![Log::Deliver { slot: 0, chunk: u32::MAX - 1 }];
    full.extend(log);
    conclude_s3::<M>(&w, full, &st);
}

fn conclude_s3<M: Machine>(w: &Workload, log: Vec<Log>, st: &M::S) {
    // materialise the synthetic empty chunk used to create slot 0
    let mut w2 = Workload { chunks: w.chunks.clone(), n_workers: w.n_workers, exact_data: w.exact_data, knobs: w.knobs.clone() };
    let empty_id = w2.chunks.len() as u32;
    w2.chunks.push(Chunk { id: empty_id, recs: [vec![], vec![]], style: chunk_styles::<M>()[0], ctor: 0 });
    let log: Vec<Log> = log
        .into_iter()
        .map(|l| match l {
            Log::Deliver { slot, chunk } if chunk == u32::MAX - 1 => Log::Deliver { slot, chunk: empty_id },
            o => o,
        })
        .collect();
    conclude::<M>("S3-shared-aggregate+monitor", &w2, log, 0, st);
}

/// S4: fork-join tree reduce (rayon-shaped): recursive split with spawned threads, identity at
/// drawn empty splits, order-preserving `left + right`
fn s4<M: Machine>() {
    let w = draw_workload::<M>();
    if w.chunks.is_empty() {
        return;
    }
    let next = Arc::new(Mutex::new(0u16));
    let lops = left_ops::<M>();
    // a single-chunk reduce spawns nothing; PCT needs at least one scheduling decision per run
    let noop = thread::spawn(|| thread::sleep(std::time::Duration::from_nanos(0)));
    thread::sleep(std::time::Duration::from_nanos(0));
    noop.join().unwrap();
    fn rec<M: Machine>(chunks: Vec<Chunk>, next: Arc<Mutex<u16>>, lops: Vec<u8>, depth: u32) -> (u16, M::S, Vec<Log>) {
        if chunks.len() == 1 || depth > 4 {
            // leaf: fold the chunks sequentially into one partial
            let s = {
                let mut g = next.lock().unwrap();
                let s = *g;
                *g += 1;
                s
            };
            let mut st = M::empty(chunks[0].ctor);
            let mut log = Vec::new();
            for c in &chunks {
                let out = M::deliver(&mut st, c.style, 0, [&c.recs[0], &c.recs[1]]);
                assert!(out.is_ok(), "valid delivery rejected: {}", out.class());
                log.push(Log::Deliver { slot: s, chunk: c.id });
            }
            // rayon inserts identities at the leaves of a reduce
            if srand(3) == 0 {
                let side = srand(2) as u8;
                st = if side == 0 { M::merge(st, M::empty(0), 0) } else { M::merge(M::empty(0), st, 0) };
                log.push(Log::MergeEmpty { a: s, side, op: 0 });
            }
            return (s, st, log);
        }
        let mid = 1 + srand(chunks.len() as u64 - 1) as usize;
        let right: Vec<Chunk> = chunks[mid..].to_vec();
        let left: Vec<Chunk> = chunks[..mid].to_vec();
        let (n2, l2) = (next.clone(), lops.clone());
        let h = thread::spawn(move || rec::<M>(right, n2, l2, depth + 1));
        let (ls, lst, mut llog) = rec::<M>(left, next, lops.clone(), depth + 1);
        let (rs, rst, rlog) = h.join().unwrap();
        let op = lops[srand(lops.len() as u64) as usize];
        let st = M::merge(lst, rst, op);
        llog.extend(rlog);
        llog.push(Log::Merge { a: ls, b: rs, op });
        (ls, st, llog)
    }
    let (root, st, log) = rec::<M>(w.chunks.clone(), next, lops, 0);
    conclude::<M>("S4-fork-join-tree", &w, log, root, &st);
}

// ------------------------------------------------------------------------------------------
// S5: the fault configuration under threads (C05 / C11)
// ------------------------------------------------------------------------------------------

/// a chunk of the fault workload: records (possibly carrying a corrupt one) and, for lock-step
/// machines, possibly one record of one stream lost in transit
#[derive(Clone)]
struct FChunk {
    c: Chunk,
    /// Some((stream, position)): that record is dropped before delivery (desynchronised pair)
    dropped: Option<(usize, usize)>,
}

fn draw_fault_workload<M: Machine>(nonpositive_only: bool) -> (Workload, Vec<FChunk>, Vec<(String, u64)>) {
    let flt = M::FLT;
    let positive = matches!(M::TRANSFORM, Transform::Ln | Transform::Recip);
    let family = if flt == Flt::Int { srand(10) as u8 } else { [0u8, 2, 3, 5, 7][srand(5) as usize] };
    let n_chunks = 1 + srand(6) as usize;
    let scale_exp = if flt == Flt::Int { 0 } else { srand(17) as i32 - 8 };
    let styles = chunk_styles::<M>();
    let seed = shuttle::rand::thread_rng().gen::<u64>();
    let lens: Vec<usize> = (0..n_chunks).map(|_| [0usize, 1, 1, 2, 3, 5][srand(6) as usize]).collect();
    let total: usize = lens.iter().sum();
    let t0 = tape::gen_tape(family, seed, total, flt, positive, scale_exp);
    let t1 = if M::STREAMS == 2 { tape::gen_tape([0u8, 2, 7][srand(3) as usize], seed ^ 0xABCD, total, flt, positive, scale_exp) } else { vec![] };
    let payloads = if nonpositive_only { faulty::nonpositive_payloads(flt) } else { faulty::corrupt_payloads(flt) };
    let fault_rate = [1u64, 3, 6][srand(3) as usize]; // out of 10
    let mut fired: Vec<(String, u64)> = Vec::new();
    let mut chunks = Vec::new();
    let mut off = 0;
    for (i, &len) in lens.iter().enumerate() {
        let mut a = t0[off..off + len].to_vec();
        let mut b = if M::STREAMS == 2 { t1[off..off + len].to_vec() } else { vec![] };
        off += len;
        let mut dropped = None;
        if len > 0 && srand(10) < fault_rate {
            if flt != Flt::Int && (srand(3) != 0 || !M::LOCKSTEP) {
                let (name, bits) = payloads[srand(payloads.len() as u64) as usize];
                let pos = srand(len as u64) as usize;
                if M::STREAMS == 2 && srand(2) == 1 {
                    b[pos] = bits;
                } else {
                    a[pos] = bits;
                }
                fired.push((format!("corrupt:{name}"), 1));
            } else if M::LOCKSTEP {
                dropped = Some((srand(2) as usize, srand(len as u64) as usize));
                fired.push(("desync:drop".into(), 1));
            }
        }
        chunks.push(FChunk { c: Chunk { id: i as u32, recs: [a, b], style: styles[srand(styles.len() as u64) as usize], ctor: srand(M::N_EMPTY as u64) as u8 }, dropped });
    }
    let n_workers = 2 + srand(2) as usize;
    let w = Workload { chunks: chunks.iter().map(|f| f.c.clone()).collect(), n_workers, exact_data: false, knobs: json!({"family": tape::FAMILY_NAMES[family as usize % 14], "chunk_lens": lens, "workers": n_workers, "fault_rate_tenths": fault_rate}) };
    (w, chunks, fired)
}

/// records of a fault chunk as they reach the library (after a possible drop)
fn delivered_recs(f: &FChunk) -> [Vec<Bits>; 2] {
    let mut r = f.c.recs.clone();
    if let Some((st, pos)) = f.dropped {
        if pos < r[st].len() {
            r[st].remove(pos);
        }
    }
    r
}

struct FRunning<M: Machine> {
    state: M::S,
    log: Vec<FLog>,
    next_slot: u16,
}

#[derive(Clone, Debug)]
enum FLog {
    Deliver { slot: u16, chunk: u32 },
    Merge { a: u16, b: u16, op: u8 },
    Observe { a: u16 },
}

/// S5: workers feed faulty chunks into a shared running aggregate (directly under the lock, or
/// through a local partial that is merged under the lock even if its delivery was rejected
/// half-way); a monitor clones the aggregate under the lock and asks for intervals.
fn s5<M: Machine>(nonpositive_only: bool) {
    let (w, fchunks, fired) = draw_fault_workload::<M>(nonpositive_only);
    let shared = Arc::new(Mutex::new(FRunning::<M> { state: M::empty(0), log: Vec::new(), next_slot: 1 }));
    let queue = Arc::new(Mutex::new(fchunks.iter().cloned().collect::<VecDeque<FChunk>>()));
    let lops = left_ops::<M>();
    let mut hs = Vec::new();
    for _ in 0..w.n_workers {
        let sh = shared.clone();
        let q = queue.clone();
        let lops = lops.clone();
        hs.push(thread::spawn(move || loop {
            let f = { q.lock().unwrap().pop_front() };
            let Some(f) = f else { break };
            let recs = delivered_recs(&f);
            if srand(2) == 0 {
                let mut g = sh.lock().unwrap();
                // the outcome (Ok / documented Err / panic) is judged by the sequential replay
                let _ = M::deliver(&mut g.state, f.c.style, 0, [&recs[0], &recs[1]]);
                g.log.push(FLog::Deliver { slot: 0, chunk: f.c.id });
            } else {
                let mut local = M::empty(0);
                let _ = M::deliver(&mut local, f.c.style, 0, [&recs[0], &recs[1]]);
                thread::sleep(std::time::Duration::from_nanos(0));
                let mut g = sh.lock().unwrap();
                let s = g.next_slot;
                g.next_slot += 1;
                let op = lops[srand(lops.len() as u64) as usize];
                let cur = g.state.clone();
                g.state = M::merge(cur, local, op);
                g.log.push(FLog::Deliver { slot: s, chunk: f.c.id });
                g.log.push(FLog::Merge { a: 0, b: s, op });
            }
        }));
    }
    let mon = {
        let sh = shared.clone();
        let n_obs = 1 + srand(2) as usize;
        thread::spawn(move || {
            for _ in 0..n_obs {
                let snap = {
                    let mut g = sh.lock().unwrap();
                    g.log.push(FLog::Observe { a: 0 });
                    g.state.clone()
                };
                let _ = M::observe(&snap, ObsPlan { confs: &[18, 1], unguarded: true });
                thread::sleep(std::time::Duration::from_nanos(0));
            }
        })
    };
    for h in hs {
        h.join().unwrap();
    }
    mon.join().unwrap();
    let mut g = shared.lock().unwrap();
    let log = std::mem::take(&mut g.log);
    let st = g.state.clone();
    drop(g);
    // ---- bridge: tapes hold the chunks (as generated, faults included) in delivery order;
    // a dropped record becomes a Fault{drop} event on the Engine-A side
    let mut tapes: [Vec<Bits>; 2] = [Vec::new(), Vec::new()];
    let mut events = vec![Event::Deliver { dst: 0, stream: 0, len: 0, style: chunk_styles::<M>()[0], ctor: 0 }];
    for l in &log {
        match l {
            FLog::Deliver { slot, chunk } => {
                let f = &fchunks[*chunk as usize];
                tapes[0].extend_from_slice(&f.c.recs[0]);
                tapes[1].extend_from_slice(&f.c.recs[1]);
                let len = f.c.recs[0].len() as u32;
                match f.dropped {
                    Some((st, pos)) => events.push(Event::Fault { dst: *slot, stream: st as u8, len, style: f.c.style, kind: faulty::FK_DROP, pos: pos as u32, payload: 0 }),
                    None => events.push(Event::Deliver { dst: *slot, stream: 0, len, style: f.c.style, ctor: 0 }),
                }
            }
            FLog::Merge { a, b, op } => events.push(Event::Merge { a: *a, b: *b, op: *op, dst: *a }),
            FLog::Observe { a } => events.push(Event::Query { a: *a, confs: vec![18, 1] }),
        }
    }
    events.push(Event::Query { a: 0, confs: vec![18, 19, 20, 2] });
    let tr = Trace {
        property: if nonpositive_only { "C05".into() } else { "C11".into() },
        config: "fault".into(),
        machine: M::name(),
        verif_seed: verif_seed(),
        run_index: 0,
        exact_data: false,
        isolated: false,
        tapes: [TapeSpec::Explicit(tapes[0].clone()), TapeSpec::Explicit(tapes[1].clone())],
        events,
        knobs: json!({"scenario": "S5-faulty-streams-into-shared-aggregate+monitor", "workload": w.knobs}),
        violation: None,
        extra: Value::Null,
    };
    let mut stats = Stats::default();
    let mut probe: Vec<String> = Vec::new();
    let known = std::collections::BTreeSet::new();
    let (viols, reach, _) = faulty::exec_probe::<M>(&tr, &mut stats, &known, Some(&mut probe));
    let mut violation = viols.into_iter().next();
    if violation.is_none() {
        let fp = M::fingerprint(&st);
        // (a slot leaves the sequential replay when the library rejected a non-finite record of a
        // two-stream delivery: what was absorbed before the rejection is then unspecified)
        if probe.last().map(|p| p.as_str()) == Some("<no such slot>") || stats.get("nonfinite_record_rejected_at_delivery.slot_dropped") > 0 {
            stats.inc("s5_slot_left_the_replay");
        } else if probe.last() != Some(&fp) {
            violation = Some(Violation::new(&tr.property, "thread-result-differs-from-sequential-replay-of-its-logical-trace", 0, format!("threads computed {fp}, sequential replay computed {:?}", probe.last())));
        }
    }
    let mut d = rng::Digest::new();
    for l in &log {
        match l {
            FLog::Deliver { slot, chunk } => {
                d.u64(1);
                d.u64(*slot as u64);
                d.u64(*chunk as u64);
            }
            FLog::Merge { a, b, op } => {
                d.u64(2);
                d.u64(*a as u64);
                d.u64(*b as u64);
                d.u64(*op as u64);
            }
            FLog::Observe { a } => {
                d.u64(4);
                d.u64(*a as u64);
            }
        }
    }
    let failed = violation.is_some();
    COLLECT.with(|c| {
        let mut c = c.borrow_mut();
        c.executions += 1;
        c.stats.merge(&stats);
        c.shapes.insert(reach.shape);
        c.interleavings.insert(d.0 ^ reach.shape);
        c.steps += reach.steps;
        for (k, v) in &fired {
            *c.fired.entry(k.clone()).or_insert(0) += v;
        }
        *c.per_scenario.entry(format!("S5/{}", M::name())).or_insert(0) += 1;
        if c.samples.len() < 2 {
            c.samples.push(json!({"scenario": "S5", "machine": M::name(), "workload": w.knobs, "logical_trace": log.iter().take(12).map(|l| format!("{:?}", l)).collect::<Vec<_>>()}));
        }
        if let Some(v) = violation {
            if c.first_violation.is_none() {
                c.first_violation = Some((tr, v));
            }
        }
    });
    if failed {
        panic!("oracle violation (see replay file)");
    }
}

// ------------------------------------------------------------------------------------------
// driver
// ------------------------------------------------------------------------------------------

const MACHINES: [&str; 12] = [
    "Arithmetic<f32>",
    "Arithmetic<f64>",
    "Geometric<f32>",
    "Geometric<f64>",
    "Harmonic<f32>",
    "Harmonic<f64>",
    "Paired<f32>",
    "Paired<f64>",
    "Unpaired<f32>",
    "Unpaired<f64>",
    "proportion::Stats",
    "quantile::Stats",
];
const SCENARIOS: [&str; 4] = ["S1", "S2", "S3", "S4"];

fn scenario_fn(s: &str, m: &str) -> Box<dyn Fn() + Send + Sync + 'static> {
    fn pick<M: Machine>(s: &str) -> Box<dyn Fn() + Send + Sync + 'static> {
        match s {
            "S1" => Box::new(s1::<M>),
            "S2" => Box::new(s2::<M>),
            "S3" => Box::new(s3::<M>),
            "S5" => Box::new(|| s5::<M>(false)),
            "S5N" => Box::new(|| s5::<M>(true)),
            _ => Box::new(s4::<M>),
        }
    }
    dispatch_machine!(m, pick, s)
}

struct ShardOut {
    collected: Collected,
    schedule_file: Option<PathBuf>,
    shard: u64,
    scenario: String,
    machine: String,
    scheduler: String,
    seed: u64,
}

/// One shard = one shuttle Runner (own seed, `iters` executions) for one (scenario, machine, scheduler).
/// shard plan per mode: (scenario, machine, use_pct)
fn shard_plan(mode: &str, shard: u64) -> (&'static str, &'static str, bool) {
    match mode {
        "c11" => ("S5", MACHINES[(shard % 12) as usize], (shard / 12) % 2 == 1),
        "c05" => ("S5N", ["Geometric<f32>", "Geometric<f64>", "Harmonic<f32>", "Harmonic<f64>"][(shard % 4) as usize], (shard / 4) % 2 == 1),
        "c08" => (SCENARIOS[(shard % 4) as usize], ["KahanSum<f32>", "KahanSum<f64>", "Arithmetic<f32>", "Arithmetic<f64>"][((shard / 4) % 4) as usize], (shard / 16) % 2 == 1),
        _ => (SCENARIOS[(shard % 4) as usize], MACHINES[((shard / 4) % 12) as usize], (shard / 48) % 2 == 1),
    }
}
fn n_shards(mode: &str) -> u64 {
    match mode {
        "c11" => 24,
        "c05" => 8,
        "c08" => 32,
        _ => 96,
    }
}

fn run_shard(mode: &str, shard: u64, iters: usize, sched_dir: &std::path::Path) -> ShardOut {
    let (scenario, machine, use_pct) = shard_plan(mode, shard);
    let seed = rng::mix(verif_seed(), &format!("engineB/{mode}"), shard);
    COLLECT.with(|c| *c.borrow_mut() = Collected::default());
    let dir = sched_dir.join(format!("shard{shard}"));
    std::fs::create_dir_all(&dir).ok();
    let mut cfg = shuttle::Config::new();
    cfg.failure_persistence = shuttle::FailurePersistence::File(Some(dir.clone()));
    cfg.max_steps = shuttle::MaxSteps::FailAfter(200_000);
    let f = scenario_fn(scenario, machine);
    let res = std::panic::catch_unwind(std::panic::AssertUnwindSafe(|| {
        if use_pct {
            let depth = 2 + (shard % 2) as usize;
            shuttle::Runner::new(shuttle::scheduler::PctScheduler::new_from_seed(seed, depth, iters), cfg).run(move || f());
        } else {
            shuttle::Runner::new(shuttle::scheduler::RandomScheduler::new_from_seed(seed, iters), cfg).run(move || f());
        }
    }));
    let mut collected = COLLECT.with(|c| std::mem::take(&mut *c.borrow_mut()));
    let mut schedule_file = None;
    if res.is_err() {
        schedule_file = std::fs::read_dir(&dir).ok().and_then(|mut d| d.next()).and_then(|e| e.ok()).map(|e| e.path());
        if collected.first_violation.is_none() {
            // a panic that did not come from the oracle: assertion in a scenario, shuttle deadlock
            // detection, step bound ... report it as a thread-level violation with the schedule only
            let msg = match res {
                Err(e) => e.downcast_ref::<String>().cloned().or_else(|| e.downcast_ref::<&str>().map(|s| s.to_string())).unwrap_or_else(|| "panic".into()),
                Ok(()) => String::new(),
            };
            let tr = Trace {
                property: match mode {
                    "c11" => "C11",
                    "c05" => "C05",
                    "c08" => "C08",
                    _ => "C09",
                }
                .into(),
                config: "free".into(),
                machine: machine.into(),
                verif_seed: verif_seed(),
                run_index: shard,
                exact_data: false,
                isolated: false,
                tapes: [TapeSpec::Explicit(vec![]), TapeSpec::Explicit(vec![])],
                events: vec![],
                knobs: json!({"scenario": scenario}),
                violation: None,
                extra: Value::Null,
            };
            let pid = tr.property.clone();
            collected.first_violation = Some((tr, Violation::new(&pid, "thread-level-failure", 0, msg)));
        }
    } else {
        std::fs::remove_dir_all(&dir).ok();
    }
    ShardOut { collected, schedule_file, shard, scenario: scenario.into(), machine: machine.into(), scheduler: if use_pct { "pct".into() } else { "random".into() }, seed }
}

fn exec_trace_generic<M: Machine>(tr: &Trace, stats: &mut Stats) -> Option<Violation> {
    if tr.config == "fault" {
        let known = std::collections::BTreeSet::new();
        return faulty::exec::<M>(tr, stats, &known).0.into_iter().next();
    }
    free::exec::<M>(tr, stats).0
}

fn main() {
    machines::install_panic_hook();
    let args: Vec<String> = std::env::args().collect();
    if args.len() >= 3 && args[1] == "replay" {
        // replay of the Engine-A part of an Engine-B replay file (the shuttle schedule, if any, is
        // replayed by `replay-schedule`)
        let v: Value = serde_json::from_str(&std::fs::read_to_string(&args[2]).expect("read replay")).expect("json");
        let tr = Trace::from_json(&v).expect("trace");
        let mut st = Stats::default();
        let viol = dispatch_machine!(tr.machine.as_str(), exec_trace_generic, &tr, &mut st);
        match (viol, &tr.violation) {
            (Some(v), Some(r)) if v.key() == r.key() => {
                println!("REPRODUCED property={} invariant={} : {}", v.property, v.invariant, v.detail);
                std::process::exit(1);
            }
            (Some(v), _) => {
                println!("DIFFERENT violation on replay: {} {}", v.invariant, v.detail);
                std::process::exit(2);
            }
            (None, Some(r)) => {
                // the logical trace reproduced on Engine A when it was recorded: it is the replay,
                // and it passes on this tree
                if v["extra"]["reproduces_on_engine_A"].as_bool().unwrap_or(true) {
                    println!("NOT REPRODUCED: recorded {} / {} does not occur on this tree", r.property, r.invariant);
                    std::process::exit(0);
                }
                // thread-level only: replay the persisted shuttle schedule
                if let Some(sf) = v["extra"]["shuttle_schedule_file"].as_str() {
                    let scenario = v["knobs"]["scenario"].as_str().unwrap_or("S1").chars().take(2).collect::<String>();
                    let f = scenario_fn(&scenario, &tr.machine);
                    let res = std::panic::catch_unwind(std::panic::AssertUnwindSafe(|| shuttle::replay_from_file(move || f(), sf)));
                    if res.is_err() {
                        let msg = machines::last_panic_message();
                        // shuttle's replay scheduler panics when the execution asks for a step the
                        // recorded schedule does not contain: the run diverged from the recording,
                        // which is the opposite of a reproduction
                        if msg.contains("@replay.rs") || msg.contains("next schedule step") || msg.contains("schedule ended") {
                            println!("NOT REPRODUCED: the execution diverges from the recorded shuttle schedule {} ({}): the recorded failure was not a function of seed and schedule", sf, msg);
                            std::process::exit(0);
                        }
                        println!("REPRODUCED property={} invariant={} : thread-level (shuttle schedule {})", r.property, r.invariant, sf);
                        std::process::exit(1);
                    }
                }
                println!("NOT REPRODUCED");
                std::process::exit(0);
            }
            (None, None) => {
                println!("trace passes");
                std::process::exit(0);
            }
        }
    }
    if args.len() < 3 || args[1] != "run" {
        eprintln!("usage: sim-threads run <quick|thorough> --out <file> [--replays <dir>] | sim-threads replay <file>");
        std::process::exit(2);
    }
    let tier = args[2].clone();
    let mut out = PathBuf::from("/verif/target/partial/C09.B.json");
    let mut replays = PathBuf::from("/verif/replays");
    let mut mode = "free".to_string();
    let mut i = 3;
    while i + 1 < args.len() {
        match args[i].as_str() {
            "--out" => out = PathBuf::from(&args[i + 1]),
            "--replays" => replays = PathBuf::from(&args[i + 1]),
            "--mode" => mode = args[i + 1].clone(),
            _ => {}
        }
        i += 2;
    }
    let pid = match mode.as_str() {
        "c11" => "C11",
        "c05" => "C05",
        "c08" => "C08",
        _ => "C09",
    };
    C08_MODE.store(mode == "c08", std::sync::atomic::Ordering::Relaxed);
    let t0 = std::time::Instant::now();
    // 96 shards = 4 scenarios x 12 machines x {random, pct}; iterations per shard by tier
    let iters: usize = match (tier.as_str(), mode.as_str()) {
        ("thorough", "free") => 20_000,
        ("thorough", "c08") => 80_000,
        (_, "c08") => 6_000,
        ("thorough", _) => 40_000,
        (_, "free") => 1_500,
        _ => 3_000,
    };
    let n_shards: u64 = n_shards(&mode);
    println!("[sim-threads] VERIF_SEED={} tier={} mode={} shards={} executions/shard={}", verif_seed(), tier, mode, n_shards, iters);
    let sched_dir = replays.join("shuttle");
    std::fs::create_dir_all(&sched_dir).ok();
    let next = std::sync::atomic::AtomicU64::new(0);
    let outs: std::sync::Mutex<Vec<ShardOut>> = std::sync::Mutex::new(Vec::new());
    let workers = std::env::var("VERIF_WORKERS").ok().and_then(|s| s.parse().ok()).unwrap_or_else(|| std::thread::available_parallelism().map(|n| n.get()).unwrap_or(4));
    std::thread::scope(|sc| {
        for _ in 0..workers {
            sc.spawn(|| loop {
                let s = next.fetch_add(1, std::sync::atomic::Ordering::Relaxed);
                if s >= n_shards {
                    break;
                }
                let o = run_shard(&mode, s, iters, &sched_dir);
                outs.lock().unwrap().push(o);
            });
        }
    });
    let mut outs = outs.into_inner().unwrap();
    outs.sort_by_key(|o| o.shard);
    let mut total = Collected::default();
    let mut first: Option<(&ShardOut, &Trace, &Violation)> = None;
    for o in &outs {
        total.executions += o.collected.executions;
        total.stats.merge(&o.collected.stats);
        total.shapes.extend(o.collected.shapes.iter().copied());
        total.interleavings.extend(o.collected.interleavings.iter().copied());
        total.trees.extend(o.collected.trees.iter().copied());
        total.steps += o.collected.steps;
        for (k, v) in &o.collected.per_scenario {
            *total.per_scenario.entry(k.clone()).or_insert(0) += v;
        }
        for (k, v) in &o.collected.fired {
            *total.fired.entry(k.clone()).or_insert(0) += v;
        }
        if total.samples.len() < 6 {
            total.samples.extend(o.collected.samples.iter().take(1).cloned());
        }
        if first.is_none() {
            if let Some((t, v)) = &o.collected.first_violation {
                first = Some((o, t, v));
            }
        }
    }
    let mut violations = 0;
    let mut nondeterministic = false;
    if let Some((o, tr, v)) = first {
        violations = 1;
        eprintln!("[sim-threads] violation in shard {} ({} {} {} seed {}): {} : {}", o.shard, o.scenario, o.machine, o.scheduler, o.seed, v.invariant, v.detail);
        let mut tr = tr.clone();
        tr.violation = Some(v.clone());
        // minimise on the Engine-A side when the logical trace reproduces there
        let key = v.key();
        let machine = tr.machine.clone();
        let exec = move |t: &Trace| -> Option<Violation> {
            let mut st = Stats::default();
            dispatch_machine!(machine.as_str(), exec_trace_generic, t, &mut st)
        };
        let reproduces = exec(&tr).map(|x| x.key() == key).unwrap_or(false);
        let min = if reproduces {
            let mut b = minimize::Budget::new(2000, 20);
            minimize::minimize(&tr, &exec, &mut b)
        } else {
            tr.clone()
        };
        std::fs::create_dir_all(&replays).ok();
        let clean: String = v.invariant.chars().map(|c| if c.is_ascii_alphanumeric() || c == '-' || c == '_' { c } else { '_' }).collect();
        let path = replays.join(format!("{}-engineB-{}-shard{}.json", v.property, clean, o.shard));
        let mut j = min.to_json();
        j["engine"] = json!("B");
        j["extra"] = json!({
            "shuttle_schedule_file": o.schedule_file.as_ref().map(|p| p.display().to_string()),
            "shuttle_seed": o.seed, "scheduler": o.scheduler, "scenario": o.scenario, "shard": o.shard,
            "reproduces_on_engine_A": reproduces,
            "note": if reproduces { "the minimised logical trace is the replay; the shuttle schedule is supplementary" } else { "thread-level only: the persisted shuttle schedule is the replay" },
        });
        std::fs::write(&path, serde_json::to_string_pretty(&j).unwrap()).expect("write replay");
        let mv = min.violation.as_ref().unwrap_or(v);
        println!("[sim-threads] {}: {}", mv.invariant, mv.detail);
        // a failure is only reported once its replay file reproduces it in a fresh process
        let exe = std::env::current_exe().expect("current_exe");
        let outp = std::process::Command::new(exe).arg("replay").arg(&path).output().expect("spawn replay");
        if outp.status.code() != Some(1) {
            nondeterministic = true;
            violations = 0;
            println!("[sim-threads] NONDETERMINISTIC-FAILURE: the replay of {} in a fresh process does not reproduce it ({}). The execution was not a function of seed and schedule: the library's answer depended on something the scheduler does not own (e.g. process-global state raced by the shards, which run as real threads of one process). Engine C (Miri owns pre-emption inside library calls) is the engine for that.", path.display(), String::from_utf8_lossy(&outp.stdout).lines().last().unwrap_or(""));
        } else {
            if mv.property != pid {
                println!("[sim-threads] (the violated clause is keyed {} in the oracle; it was found by, and is reported under, the {} check)", mv.property, pid);
            }
            println!("VIOLATION property={} replay={}", pid, path.display());
        }
    }
    let wall = t0.elapsed().as_secs_f64();
    let j = json!({
        "property_id": pid, "tier": tier, "seed": verif_seed(), "level": if pid == "C09" || pid == "C08" { "exploration" } else { "fault_enumeration" },
        "coverage": {
            "evaluations": total.executions,
            "distinct_nontrivial": total.interleavings.len(),
            "rule": if mode == "c08" { "one evaluation = one shuttle-scheduled execution of a thread scenario (S1 work queue + lock combine, S2 channel fan-in, S3 shared aggregate + monitor, S4 fork-join tree) over real KahanSum / Arithmetic registers (chunks up to 233 records, register data families incl. vanishing increments, alternating signs, integers beyond the mantissa); the schedule decides the grouping of chunks and the merge tree; the logical trace is replayed sequentially by Engine A with the C08 oracle (exact sum from the super-accumulator, K = 8) and must reproduce the thread result bit for bit; distinct = distinct logical interleavings" } else if mode == "free" { "one evaluation = one shuttle-scheduled execution of a thread scenario (S1 work queue + lock combine, S2 channel fan-in, S3 shared aggregate + monitor with linearizability check, S4 fork-join tree) over real stats-ci states, bridged to a sequential Engine-A replay with the C09 oracle; distinct = distinct logical interleavings (order of chunk-to-partial assignments, merges with orientation, monitor observations; data erased)" } else { "one evaluation = one shuttle-scheduled execution of scenario S5: worker threads feed chunks that may carry a corrupt record or a dropped record into a shared aggregate (directly under the lock, or through a local partial merged under the lock even after a rejected delivery) while a monitor thread clones and queries it; the logical trace is replayed sequentially by the fault-configuration executor (documented outcome of every delivery, post-rejection state, totality of every query, twin refinement) and must reproduce the thread result bit for bit; distinct = distinct logical interleavings" },
            "samples": total.samples,
            "engine_B": {
                "schedulers": ["RandomScheduler::new_from_seed", "PctScheduler::new_from_seed(depth 2..3)"],
                "shards": n_shards, "executions_per_shard": iters,
                "executions_per_scenario_and_machine": total.per_scenario,
                "distinct_logical_interleavings": total.interleavings.len(),
                "distinct_event_shapes": total.shapes.len(),
                "distinct_merge_trees": total.trees.len(),
                "simulated_steps": total.steps,
                "counters": total.stats.counters,
                "fault_kinds_fired": total.fired,
                "worst_ratio_over_tolerance": total.stats.worst,
                "executions_per_hour": if wall > 0.0 { total.executions as f64 / wall * 3600.0 } else { 0.0 },
                "wall_s": wall,
            },
        },
        "assumptions": ["shuttle replaces std's Mutex/mpsc/thread; rayon itself is not run, its reduce shapes are modelled by S4"],
        "wall_s": wall, "violations": violations,
    });
    if let Some(p) = out.parent() {
        std::fs::create_dir_all(p).ok();
    }
    std::fs::write(&out, serde_json::to_string_pretty(&j).unwrap()).expect("write partial");
    std::process::exit(if nondeterministic { 2 } else if violations > 0 { 1 } else { 0 });
}
