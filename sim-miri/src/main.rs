//! Engine C: a small, fixed-size reduce program on REAL std threads, std::sync::Mutex and
//! std::sync::mpsc, meant to be interpreted by Miri with many scheduler seeds
//! (-Zmiri-many-seeds): Miri owns the interleaving (seeded preemption) and additionally checks
//! for data races / UB in everything executed, including the lazy_static initialisation race of
//! the first concurrent proportion::ci calls. Corroboration only (thorough tier).
//!
//! Oracles (self-contained, no big-number model under the interpreter):
//!  * the sequential replay of the logical trace (arrival order, orientation) reproduces the
//!    threads' result bit for bit;
//!  * count is exact, mean / variance agree with the batch computation within a first-order bound;
//!  * each monitor snapshot equals the replay of exactly the operations committed before it;
//!  * concurrent first calls of proportion::ci agree with a later sequential call;
//!  * S6: concurrent queries of shared immutable states (threads pre-empted anywhere, also inside
//!    a query) answer exactly what the same query answers alone.
use stats_ci::mean::{Arithmetic, StatisticsOps};
use stats_ci::{proportion, Confidence};
use std::collections::VecDeque;
use std::sync::{mpsc, Arc, Mutex};
use std::thread;

const DATA: [f64; 18] = [
    10.6, 6.6, 26.7, 0.4, 5.7, 0.3, 1.1, 5.0, 8.4, 1.4, 15.1, 0.3, 20.4, 1.2, 28.4, 10.7, 1e9, -1e9,
];
const CHUNKS: [(usize, usize); 6] = [(0, 3), (3, 4), (7, 1), (8, 5), (13, 3), (16, 2)];

fn part(c: usize) -> Arithmetic<f64> {
    let (o, l) = CHUNKS[c];
    Arithmetic::from_iter(&DATA[o..o + l].to_vec()).unwrap()
}

fn fp(a: &Arithmetic<f64>) -> String {
    format!("{:?}", a)
}

/// One fixed tenant program; the returned transcript holds every observable result (Debug text
/// prints floats shortest-round-trip, i.e. bit-exactly up to the sign of NaN).
fn tenant(k: usize, v: usize) -> String {
    use stats_ci::comparison::{Paired, Unpaired};
    use stats_ci::mean::{Geometric, Harmonic};
    use stats_ci::utils::KahanSum;
    use stats_ci::quantile;
    use std::fmt::Write;
    let mut out = String::new();
    let c2 = Confidence::new_two_sided(0.95);
    let cu = Confidence::new_upper(0.9);
    let cl = Confidence::new_lower(0.75);
    match k {
        0 => {
            // arithmetic states in both element types, a bare register, merges in both orientations
            let mut a = Arithmetic::<f64>::new();
            let mut b = Arithmetic::<f32>::new();
            let mut r = KahanSum::<f64>::default();
            for (i, &x) in DATA.iter().enumerate() {
                a.append(x).unwrap();
                b.append(x as f32).unwrap();
                r += x;
                if i == 0 {
                    // fewer than two observations: the documented error, not a panic
                    write!(out, "{:?};{:?};", a.ci_mean(c2), b.ci_mean(cu)).unwrap();
                }
            }
            let p = part(1) + a + part(3);
            let mut q = Arithmetic::<f32>::from_iter(&[0.5f32, 0.25, 8.0]).unwrap();
            q += b;
            write!(out, "{:?};{:?};{:?};{:?};{:?};{:?};{:?}", a, r.value(), p, q, p.ci_mean(c2), q.ci_mean(cl), a.ci_mean(cu)).unwrap();
        }
        1 => {
            // geometric / harmonic states with a refused record in the middle of the stream
            let mut g = Geometric::<f64>::new();
            let mut h = Harmonic::<f32>::new();
            for (i, &x) in DATA[..16].iter().enumerate() {
                g.append(x).unwrap();
                h.append(x as f32).unwrap();
                if i == 5 {
                    let before = (format!("{:?}", g), format!("{:?}", h));
                    write!(out, "{:?};{:?};", g.append(-2.5), h.append(0.0)).unwrap();
                    write!(out, "{:?};", g.extend(&[3.0, 0.0, 4.0])).unwrap();
                    assert_eq!(before.1, format!("{:?}", h), "S7: a refused record changed the harmonic state");
                    let _ = before.0;
                }
            }
            let g2 = Geometric::<f64>::from_iter(&[2.0, 0.5, 4.0]).unwrap() + g;
            write!(out, "{:?};{:?};{:?};{:?};{:?};{:?};{:?}", g, h, g.ci_mean(c2), h.ci_mean(cu), g2.ci_mean(cl), h.sample_sem(), g.sample_mean()).unwrap();
            write!(out, ";{:?}", Harmonic::<f64>::ci(c2, &[1.0, 2.0, -1.0, 4.0])).unwrap();
        }
        3 => {
            // a sweep over many confidence levels in all three kinds, for the z-based intervals
            // (proportions, quantile ranks) and a t-based one: more distinct requests than any
            // small table of remembered answers has room for
            let a = Arithmetic::<f64>::from_iter(&DATA[..12].to_vec()).unwrap();
            let st = quantile::Stats::new(57);
            for j in 0..10u32 {
                // each variant walks the same levels from its own starting point
                let i = (j + 3 * v as u32) % 10;
                let level = 0.52 + 0.047 * i as f64;
                for c in [Confidence::new_two_sided(level), Confidence::new_upper(level), Confidence::new_lower(level)] {
                    write!(out, "{:?};", proportion::ci(c, 90 + i as usize, 31)).unwrap();
                    if i % 3 == 1 {
                        write!(out, "{:?};", st.ci(c, 0.5)).unwrap();
                    }
                    if i % 5 == 0 {
                        write!(out, "{:?};", a.ci_mean(c)).unwrap();
                    }
                }
            }
        }
        4 => {
            // long batches: one call that consumes hundreds of records (whatever a call stages or
            // blocks internally is exercised beyond its first block)
            // each variant has its own data (same lengths)
            let xs: Vec<f64> = (0..420).map(|i| (1.0 + v as f64) * (0.25 + ((i * 37 + 11 + 13 * v) % 101) as f64 * 0.125) + if i % 97 == 0 { 1e6 } else { 0.0 }).collect();
            let ys: Vec<f32> = xs.iter().map(|&x| (x * 0.5) as f32).collect();
            let mut a = Arithmetic::<f64>::new();
            a.extend(&xs).unwrap();
            let b = Arithmetic::<f32>::from_iter(&ys).unwrap();
            let mut g = Geometric::<f64>::new();
            g.extend(&xs[..300].to_vec()).unwrap();
            let mut p = Paired::<f64>::default();
            p.extend(&xs[..210].to_vec(), &xs[210..].to_vec()).unwrap();
            let mut u = Unpaired::<f64>::default();
            u.extend_a(&xs[..300].to_vec()).unwrap();
            u.extend_b(&xs[300..].to_vec()).unwrap();
            let mut s = proportion::Stats::default();
            s.extend_if(&xs, |&x| x > 5.0);
            write!(out, "{:?};{:?};{:?};{:?};{:?};{:?}", a, b, g, p, u, s).unwrap();
        }
        _ => {
            // comparisons, proportions, quantiles — with their documented refusals
            let xs: Vec<f64> = DATA[..10].to_vec();
            let ys: Vec<f64> = DATA[6..16].to_vec();
            let mut p = Paired::<f64>::default();
            p.extend(&xs, &ys).unwrap();
            write!(out, "{:?};", p.extend(&xs[..3].to_vec(), &ys[..5].to_vec())).unwrap();
            let mut u = Unpaired::<f64>::from_iter(&xs[..4].to_vec(), &ys[..7].to_vec()).unwrap();
            u.extend_a(&xs[4..].to_vec()).unwrap();
            let u2 = Unpaired::<f64>::from_iter(&ys[..1].to_vec(), &xs[..1].to_vec()).unwrap();
            write!(out, "{:?};{:?};{:?};{:?};", p.ci_mean(c2), u.ci_mean(c2), u.ci_mean(cu), u2.ci_mean(c2)).unwrap();
            let mut s = proportion::Stats::default();
            s.extend(&[true, false, true, true, false, true, true, false, true, true, true, false]);
            s += proportion::Stats::new(40, 13);
            write!(out, "{:?};{:?};{:?};{:?};", s, s.ci(c2), proportion::ci(cu, 10, 11), proportion::ci(cl, 50, 1)).unwrap();
            write!(out, "{:?};{:?};{:?};{:?}", quantile::ci(c2, &DATA[..16].to_vec(), 0.5), quantile::ci(cu, &DATA[..16].to_vec(), 0.25), quantile::ci(c2, &DATA[..16].to_vec(), 1.5), quantile::ci(c2, &DATA[..3].to_vec(), 0.5)).unwrap();
        }
    }
    out
}

fn main() {
    // ---------------- concurrent first use of the lazily initialised normal distribution
    let conf = Confidence::new_two_sided(0.95);
    let hs: Vec<_> = (0..3).map(|_| thread::spawn(move || format!("{:?}", proportion::ci(conf, 100, 30)))).collect();
    let rs: Vec<String> = hs.into_iter().map(|h| h.join().unwrap()).collect();
    let seq = format!("{:?}", proportion::ci(conf, 100, 30));
    for r in &rs {
        assert_eq!(*r, seq, "concurrent first use of proportion::ci disagrees with a sequential call");
    }

    // ---------------- an answer depends on the state only, not on what the thread was asked before
    {
        use stats_ci::comparison::Unpaired;
        let x = Unpaired::<f64>::from_iter(&vec![1.0, 2.5, 3.0, 7.5, 9.0], &vec![2.0, 2.5, 4.0]).unwrap();
        let y = Unpaired::<f64>::from_iter(&vec![1.0, 2.5, 3.0, 7.5, 9.5], &vec![2.0, 2.5, 4.5]).unwrap();
        let (x1, x2, y1) = (x.clone(), x.clone(), y.clone());
        let c90 = Confidence::new_two_sided(0.9);
        let busy = thread::spawn(move || {
            // asked about a neighbouring state (and a one-sample state) first
            let _ = format!("{:?}", y1.ci_mean(c90));
            let a = Arithmetic::<f64>::from_iter(&vec![1.0, 2.0, 4.0, 8.0, 16.0, 32.0]).unwrap();
            let _ = format!("{:?}", a.ci_mean(c90));
            format!("{:?}", x1.ci_mean(c90))
        });
        let fresh = thread::spawn(move || format!("{:?}", x2.ci_mean(c90)));
        let (rb, rf) = (busy.join().unwrap(), fresh.join().unwrap());
        assert_eq!(rb, rf, "the same Unpaired state answers differently on a thread that was asked other questions before");
    }

    // ---------------- S6: concurrent readers. Queries take &self; several threads ask the same two
    // shared states at two levels, in alternation, while Miri pre-empts them anywhere (also in the
    // middle of a query). Every answer must be bit-identical to the one computed before any
    // thread was started: an answer is a function of (state, confidence) and of nothing else.
    {
        let s1 = Arc::new(Arithmetic::<f64>::from_iter(&DATA[..9].to_vec()).unwrap());
        let s2 = Arc::new(Arithmetic::<f64>::from_iter(&DATA[..16].to_vec()).unwrap());
        let levels = [Confidence::new_two_sided(0.9), Confidence::new_upper(0.99)];
        let mut expected = Vec::new();
        for s in [&s1, &s2] {
            for &l in &levels {
                expected.push(format!("{:?}", s.ci_mean(l)));
            }
        }
        let expected = Arc::new(expected);
        let hs: Vec<_> = (0..3usize)
            .map(|t| {
                let (s1, s2, expected) = (s1.clone(), s2.clone(), expected.clone());
                thread::spawn(move || {
                    for i in 0..4usize {
                        // thread t walks the four (state, level) combinations from its own offset
                        let k = (t + i) % 4;
                        let s = if k / 2 == 0 { &s1 } else { &s2 };
                        let got = format!("{:?}", s.ci_mean(levels[k % 2]));
                        assert_eq!(got, expected[k], "S6: a concurrent query of a shared state answered differently from the same query made alone");
                    }
                })
            })
            .collect();
        for h in hs {
            h.join().unwrap();
        }
    }

    // ---------------- S7: independent tenants. Each thread owns its objects outright (nothing is
    // shared by the callers), runs three fixed tenant programs in its own rotation — accumulate,
    // merge, query, and the fault paths of C05 / C11 (a refused non-positive record, too few
    // observations, unequal paired lengths, a quantile outside (0, 1), successes > population) —
    // while Miri pre-empts it anywhere. Every tenant's transcript must be bit-identical to the
    // transcript of the same program executed alone before any thread existed: whatever a change
    // makes the calls share behind the callers' backs (scratch buffer, pool, memo, counter) and
    // updates without owning the interleaving shows as a differing transcript.
    {
        const TENANTS: usize = 5;
        // "light" (quick tier): only the two programs all three threads run at the same time
        let light = std::env::args().any(|a| a == "light");
        for k in if light { 3..TENANTS } else { 0..TENANTS } {
            // threads 0 and 1 run the same program at the same time on their own data / in their
            // own order (variants 0 and 1); thread 2 runs the next program (variant 2)
            // (for the level sweep and the long batches all three threads run the same program)
            let plan: [(usize, usize); 3] = [(k, 0), (k, 1), (if k >= 3 { k } else { (k + 1) % TENANTS }, 2)];
            let alone: Vec<String> = plan.iter().map(|&(k, v)| tenant(k, v)).collect();
            let alone = Arc::new(alone);
            let hs: Vec<_> = (0..3usize)
                .map(|t| {
                    let alone = alone.clone();
                    thread::spawn(move || {
                        let (k, v) = plan[t];
                        let got = tenant(k, v);
                        if got != alone[t] {
                            let (a, b): (Vec<&str>, Vec<&str>) = (got.split(';').collect(), alone[t].split(';').collect());
                            let i = a.iter().zip(b.iter()).position(|(x, y)| x != y).unwrap_or(a.len().min(b.len()));
                            panic!("S7: tenant program {k} (variant {v}) run next to other tenants differs from the same program run alone at item {i}: next to others {:?}, alone {:?}", a.get(i), b.get(i));
                        }
                    })
                })
                .collect();
            for h in hs {
                h.join().unwrap();
            }
        }
    }

    // ---------------- S2: channel fan-in
    let queue = Arc::new(Mutex::new((0..CHUNKS.len()).collect::<VecDeque<usize>>()));
    let (tx, rx) = mpsc::channel::<(usize, Arithmetic<f64>)>();
    let mut hs = Vec::new();
    for _ in 0..3 {
        let q = queue.clone();
        let tx = tx.clone();
        hs.push(thread::spawn(move || loop {
            let c = { q.lock().unwrap().pop_front() };
            let Some(c) = c else { break };
            tx.send((c, part(c))).unwrap();
        }));
    }
    drop(tx);
    let mut order = Vec::new();
    let mut acc = Arithmetic::<f64>::new();
    while let Ok((c, p)) = rx.recv() {
        // alternate the orientation: accumulated state on the left / on the right
        acc = if order.len() % 2 == 0 { acc + p } else { p + acc };
        order.push(c);
    }
    for h in hs {
        h.join().unwrap();
    }
    let mut replay = Arithmetic::<f64>::new();
    for (i, &c) in order.iter().enumerate() {
        replay = if i % 2 == 0 { replay + part(c) } else { part(c) + replay };
    }
    assert_eq!(fp(&acc), fp(&replay), "S2: thread result differs from the sequential replay of its arrival order {:?}", order);
    let batch = Arithmetic::<f64>::from_iter(&DATA.to_vec()).unwrap();
    assert_eq!(acc.sample_count(), batch.sample_count(), "S2: count");
    let sum_abs: f64 = DATA.iter().map(|x| x.abs()).sum();
    let n = DATA.len() as f64;
    let u = f64::EPSILON / 2.0;
    assert!((acc.sample_mean() - batch.sample_mean()).abs() <= 32.0 * u * sum_abs / n, "S2: mean {} vs batch {}", acc.sample_mean(), batch.sample_mean());
    let q: f64 = DATA.iter().map(|x| x * x).sum();
    assert!((acc.sample_variance() - batch.sample_variance()).abs() <= 160.0 * u * q / (n - 1.0), "S2: variance {} vs batch {}", acc.sample_variance(), batch.sample_variance());

    // ---------------- S3: shared running aggregate + monitor
    let shared = Arc::new(Mutex::new((Arithmetic::<f64>::new(), Vec::<usize>::new())));
    let queue = Arc::new(Mutex::new((0..CHUNKS.len()).collect::<VecDeque<usize>>()));
    let mut hs = Vec::new();
    for _ in 0..2 {
        let q = queue.clone();
        let sh = shared.clone();
        hs.push(thread::spawn(move || loop {
            let c = { q.lock().unwrap().pop_front() };
            let Some(c) = c else { break };
            let local = part(c);
            let mut g = sh.lock().unwrap();
            g.0 += local;
            g.1.push(c);
        }));
    }
    let mon = {
        let sh = shared.clone();
        thread::spawn(move || {
            let mut seen = Vec::new();
            for _ in 0..3 {
                let (snap, k) = {
                    let g = sh.lock().unwrap();
                    (g.0, g.1.len())
                };
                let _ = snap.sample_count();
                if snap.sample_count() >= 2 {
                    let _ = snap.ci_mean(Confidence::new_two_sided(0.9));
                }
                seen.push((fp(&snap), k));
                thread::yield_now();
            }
            seen
        })
    };
    for h in hs {
        h.join().unwrap();
    }
    let seen = mon.join().unwrap();
    let g = shared.lock().unwrap();
    let committed = g.1.clone();
    for (snap_fp, k) in &seen {
        let mut r = Arithmetic::<f64>::new();
        for &c in &committed[..*k] {
            r += part(c);
        }
        assert_eq!(*snap_fp, fp(&r), "S3: monitor snapshot after {k} commits is not the replay of those commits");
    }
    let mut r = Arithmetic::<f64>::new();
    for &c in &committed {
        r += part(c);
    }
    assert_eq!(fp(&g.0), fp(&r), "S3: final state differs from replay");
    assert_eq!(g.0.sample_count(), DATA.len());
    println!("ORDER s2={:?} s3={:?} monitor={:?}", order, committed, seen.iter().map(|s| s.1).collect::<Vec<_>>());
}
